#!/bin/bash
# MANIFEST.setup_cmd: offline build of everything the checks need that is not
# already in /venv.  Idempotent.  Nothing is fetched from a network.
HERE="$(cd "$(dirname "${BASH_SOURCE[0]}")" && pwd)"
cd "$HERE" || exit 2
export PIP_NO_INDEX=1
mkdir -p .deps .work evidence violations
if ! PYTHONPATH="$HERE/.deps" /venv/bin/python -c "import atheris, jsonschema" 2>/dev/null; then
    /venv/bin/python -m pip install --quiet --no-index --find-links /opt/veriftools/wheels \
        --target "$HERE/.deps" --upgrade atheris jsonschema 2>&1 | tail -2
fi
# Java reference for murmur2 (C18); the check falls back to ctypes-free
# emulation and says so if no JVM is present.
if command -v javac >/dev/null 2>&1; then
    mkdir -p .work/java
    if [ ! -f .work/java/Murmur2Ref.class ] || [ ref/Murmur2Ref.java -nt .work/java/Murmur2Ref.class ]; then
        javac -d .work/java ref/Murmur2Ref.java || exit 2
    fi
fi
exit 0
