#!/bin/bash
# tools/sweep.sh "<seeds>" [tier] [ids...] - run checks at several seeds on the current tree, print one line per run (not a registered check)
SEEDS="${1:-1 2 3}"; TIER="${2:-quick}"; shift 2
IDS="$@"; [ -z "$IDS" ] && IDS="C01 C02 C03 C04 C05 C06 C07 C08 C09 C10 C11 C12 C13 C14 C15 C16 C17 C18 C19 C20"
HERE="$(cd "$(dirname "${BASH_SOURCE[0]}")/.." && pwd)"
OUT="${VERIF_SWEEP_OUT:-/tmp/sweep.out}"; mkdir -p "$OUT"
for s in $SEEDS; do for c in $IDS; do
    VERIF_SEED=$s VERIF_OUT="$OUT" "$HERE/check" $c $TIER > "$OUT/$c.$s.log" 2>&1; rc=$?
    echo "rc=$rc $(grep -m1 "^$c " "$OUT/$c.$s.log" | cut -c1-150) $(grep -m1 -A1 '^VIOLATION' "$OUT/$c.$s.log" | tail -1 | cut -c1-120)"
done; done
