"""python tools/dbg.py <violation.json> [PROPS]  - replay a CL/PROD/CONS/GRP trace printing what happens at each step"""
import json, sys, os
sys.path[:0] = [os.environ.get("VERIF_REPO", "/repo"), "/verif", "/verif/.deps"]
from vlib import jsonx
from vlib.runner import Ctx, OracleViolation
import importlib
o = json.load(open(sys.argv[1]))
case = jsonx.dec(o["case"])
prop = o["property"]
mod = importlib.import_module("checks.%s" % prop.lower())
ctx = Ctx(prop, "quick", 0, 0, 1, {})
ctx.replaying = True
Eng = getattr(mod, "Eng", None) or getattr(mod, "ENGINE")
eng = Eng(case["config"], ctx, props={prop})
w = eng.world
print("config", json.dumps(case["config"]))
na = nw = 0
try:
    for step in case["trace"] + [["<finish>"]]:
        if step[0] == "<finish>":
            eng.end()
        else:
            eng.apply(list(step))
        print("--- step", w.step_no, step, "t=%.3f" % w.now)
        for a in w.attempt_log[na:]:
            print("    attempt", a.aid, a.host, a.port, "boot" if not hasattr(a.factory, "node_id") else "node%s" % a.factory.node_id, a.outcome)
        na = len(w.attempt_log)
        for (s, t, c, f) in w.write_log[nw:]:
            import struct
            k, v, corr = struct.unpack(">hhi", f[:8])
            print("    write conn%d node=%s api=%d v%d corr=%d len=%d" % (c.cid, c.userdata.get("node"), k, v, corr, len(f)))
        nw = len(w.write_log)
        for c in getattr(eng, "calls", []):
            if c.watch is not None and c.watch.fired and c.watch.fired[0][0] == w.step_no:
                print("    call#%d %s -> %s %.160r" % (c.no, c.kind, c.watch.state, c.watch.value))
        print("    pending events:", [repr(e) for e in w.pending()][:10], "next timer:", w.next_timer() and w.next_timer()[:2])
except OracleViolation as e:
    print("VIOLATION", e.v.sig, e.v.detail)
