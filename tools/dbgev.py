"""python tools/dbgev.py <violation.json>  - replay a trace printing every write / delivered reply per simulated event (also inside finish)"""
import json, sys, os, struct
sys.path[:0] = [os.environ.get("VERIF_REPO", "/repo"), "/verif", "/verif/.deps"]
from vlib import jsonx
from vlib.runner import Ctx, OracleViolation
import importlib
o = json.load(open(sys.argv[1]))
case = jsonx.dec(o["case"])
prop = o["property"]
mod = importlib.import_module("checks.%s" % prop.lower())
ctx = Ctx(prop, "quick", 0, 0, 1, {})
ctx.replaying = True
Eng = getattr(mod, os.environ.get("DBG_ENG", "Eng"), None) or getattr(mod, "ENGINE")
eng = Eng(case["config"], ctx, props={prop})
w = eng.world
st = {"nw": 0, "nr": 0}
orig = eng._after_event
def after(*_a, **_kw):
    for (s, t, c, f) in w.write_log[st["nw"]:]:
        k, v, corr = struct.unpack(">hhi", f[:8])
        print("    t=%.4f write conn%d node=%s api=%d v%d corr=%d len=%d" % (w.now, c.cid, c.userdata.get("node"), k, v, corr, len(f)))
    st["nw"] = len(w.write_log)
    cl = getattr(eng, "cluster", None)
    if cl is not None:
        for info in cl.replies:
            if "_dbg" not in info and cl.delivered(info):
                info["_dbg"] = 1
                print("    t=%.4f reply delivered api=%s corr=%s %.200r" % (w.now, info.get("api"), info.get("corr"), {k: v for k, v in info.items() if k in ("fetch", "offsets_answer", "offsets", "commit", "error")}))
    orig(*_a, **_kw)
eng._after_event = after
try:
    for step in case["trace"] + [["<finish>"]]:
        print("--- step", step, "t=%.3f" % w.now)
        if step[0] == "<finish>":
            eng.end()
        else:
            eng.apply(list(step))
except OracleViolation as e:
    print("VIOLATION", e.v.sig, e.v.detail)
for n in getattr(eng, "noted", []) or []:
    print("NOTED", n)
