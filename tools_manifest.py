"""Regenerates MANIFEST.json from the table below (run: /venv/bin/python tools_manifest.py)."""
import json
import os

HERE = os.path.dirname(os.path.abspath(__file__))

# property -> (engine, technique, level text, level note, design ref)
CHECKS = {
    "C18": (
        "structured",
        "property-based testing (Hypothesis) with a differential oracle: Kafka's murmur2 on the JVM; exhaustive short keys; generated round-robin histories against a window-permutation invariant",
        "Generated-input search: every generated or enumerated key is hashed by afkak and by the Java client's murmur2 running on the JVM; round-robin fairness is checked on generated selection histories with list changes. Evidence of agreement on everything explored (all keys <= 2 bytes exhaustively, thousands of longer ones), not a proof for all keys.",
        "Trusts ref/Murmur2Ref.java as a transcription of Utils.murmur2 (self-checked against the repository's Java-derived vectors) and the installed JVM.",
        "DESIGN.md 3/C18",
    ),
}

CHECKS.update({
    "C04": (
        "structured+CL",
        "property-based testing (Hypothesis): generated request arguments -> afkak encoder -> independent strict parser (vlib/refproto) -> field-for-field comparison; version negotiation by stateful traces on the simulated cluster",
        "Generated-input search over the 14 request encoders (and create_message_set): the emitted bytes must parse, whole frame consumed, under an independently written strict parser to exactly the supplied values. Exploration, not proof: thousands of argument tuples per encoder per run incl. boundary values.",
        "Trusts vlib/refproto.py as the protocol grammar (self-checked against golden byte strings hand-written in afkak's tests).",
        "DESIGN.md 3/C04",
    ),
    "C05": (
        "structured",
        "property-based testing (Hypothesis): independent encoder (vlib/refproto) -> afkak decoder -> field-for-field comparison; afkak encode -> decode round trip on message sets (metamorphic identity)",
        "Generated-input search over all 13 response decoders, both embedded blobs and message sets in both formats with gzip wrappers as a broker lays them out; decoded values must equal the encoded ones incl. absolute offsets inside wrappers.",
        "Trusts refproto's response encoders and its KIP-31 offset rule; snappy absent from the sandbox.",
        "DESIGN.md 3/C05",
    ),
    "C12": (
        "structured+fuzz+CONS",
        "property-based testing with exhaustive per-case enumeration (every bit of every checksummed region, every truncation point), Hypothesis mutator over valid responses, coverage-guided fuzzing (atheris/libFuzzer) with a deterministic work-budget oracle inside the target, and stateful traces of the real Consumer for the buffer-enlargement clause",
        "Every single-bit flip and every cut point of each generated set is enumerated; bursts and in-wrapper corruption are sampled; arbitrary and mutated bytes are fed to all 17 decoders under a line-count budget linear in the input; the consumer's reaction to a cut message (same offset again with a larger buffer, never giving up below the maximum) is checked end to end on engine CONS. Exploration of the input space; the linear budget is evidence of proportionality, not a complexity proof.",
        "Work measured as executed afkak source lines via sys.monitoring; budget constants calibrated on valid inputs; decompression output charged to the budget.",
        "DESIGN.md 3/C12",
    ),
    "C15": (
        "structured+GRP",
        "property-based testing (Hypothesis) with validity predicates over the leader's assignment, permutation metamorphic relation, differential decode against an independent parser, exhaustive small-scope enumeration, plus stateful traces in which the real Coordinator is elected leader of a simulated group",
        "Random member/subscription/partition maps plus every input in a small scope; exact cover, only-subscribed, balance, order independence and decode agreement are checked on each; on engine GRP the SyncGroup the real leader writes is parsed independently and held to the same clauses, and a join won as leader must be followed by a SyncGroup or another attempt.",
        "For the direct calls the partition map covers all subscribed topics; obtaining it is the coordinator's job and is exercised by the leader-path traces (ghost members may subscribe to more topics than the member under test).",
        "DESIGN.md 3/C15",
    ),
})

CHECKS.update({
    "C06": (
        "BC",
        "model-based stateful property testing: Hypothesis-drawn operation/schedule sequences on the real _KafkaBrokerClient and KafkaBootstrapProtocol over a simulated transport, compared step by step with a reference model of the request table; ddmin-shrunk JSON traces",
        "Search over request/cancel/reply-order/chunking/drop/close histories; after every step the state and value of every request Deferred must equal the model's, and at the end each must have fired exactly once. Exploration of thousands of histories per run, not exhaustive.",
        "The scheduler's event granularity (frame chunks, connect resolution, connectionLost as separate events) is the interleaving space; the model identifies responses by correlation id as the property does.",
        "DESIGN.md 3/C06",
    ),
    "C10": (
        "BC",
        "model-based stateful property testing with fault injection at every event boundary: the reference model predicts the exact frames written per step and the time/address of every connection attempt under a generated retry policy",
        "Search over drop points (before/between/inside frames, while connecting, during backoff), refusal runs, cancellations, new requests and close; writes and attempts must match the model in every step.",
        "Assumes writes/attempts happen synchronously with their trigger, as the broker client does today.",
        "DESIGN.md 3/C10",
    ),
})

CL_NOTE = "simkafka (vlib/simkafka.py) models a 0.10-era cluster and parses every request with refproto's strict parser; the oracles quote what the model answered (ledger of replies and their delivery), so a modelling inaccuracy changes which situations arise, not whether afkak's reaction to an answer was right. Interleavings = orderings of the simulator's events (connect resolution, per-frame broker processing, byte chunks, connectionLost, single timers)."
CHECKS.update({
    "C07": ("CL", "stateful property-based testing (Hypothesis-drawn call/schedule/fault sequences) of the real KafkaClient on a simulated stateful cluster; routing, ordering and accounting invariants over the per-broker request log; ddmin-shrunk JSON traces",
            "Search over cluster layouts, payload lists, reply orders and failing broker subsets; every written request is checked against the client's routing metadata, results against payload order and the broker's answers, FailedPayloadsError against exact-once accounting, and unavailable errors against the fallback order. Exploration, ~2000 traces per quick run.", CL_NOTE, "DESIGN.md 3/C07"),
    "C08": ("CL", "stateful property-based testing: generated histories of metadata replies (partial/full, leaders moving, topics erroring, brokers removed/re-addressed) interleaved with requests; cache view compared with delivered replies after every event",
            "The client's documented cache attributes must equal a whole delivered reply (or be empty) after every event, removed brokers' connections must be closed after a full refresh, dialled addresses must come from replies no older than the witnessed one, and invalidated routing must be re-resolved before the next request. The end-to-end recovery clause is exercised by the PROD and CONS engines (C01/C09/C02 quiet phases).", CL_NOTE, "DESIGN.md 3/C08"),
    "C11": ("CL", "stateful property-based testing with a harness-owned virtual clock: broker behaviour per request (prompt/late/never) and timer firing order are drawn; completion instants compared with issue+timeout; timer population compared with unanswered requests",
            "For warm calls: resolution no later than the deadline and not earlier without a reply, success only with a delivered reply, no timeout timer surviving its reply, late replies harmless, unanswered requests re-sent when the connection is replaced, everything resolves once faults stop.", CL_NOTE, "DESIGN.md 3/C11"),
    "C20": ("CL", "stateful property-based testing: close() drawn at any step (incl. scripted double-removal scenarios), then every ordering of connectionLost notifications; invariants on pending calls, later calls, writes/connects after close, close Deferred timing, caches",
            "Search over client states at close; two genuine defects on the bootstrap path are recorded as known findings and excluded by signature so the search continues past them.", CL_NOTE, "DESIGN.md 3/C20"),
})

CHECKS.update({
    "C01": ("PROD", "stateful property-based testing of the real Producer + KafkaClient on a simulated stateful cluster; each send's outcome judged against the cluster's acknowledgement ledger; exactly-once firing observed by Deferred instrumentation; ddmin-shrunk JSON traces",
            "Search over producer configurations, send/cancel/stop sequences, reply orders and fault sequences; a success must be backed by an error-free acknowledgement from the then-leader for a request containing exactly the send's messages, delivered in time; every Deferred must have fired exactly once after a final stop.", CL_NOTE, "DESIGN.md 3/C01"),
    "C09": ("PROD", "stateful property-based testing; invariants over the whole produce-request history (sends, batches, rounds, attempts attributed by unique message tags, payload object identity and a wrapper on the public client call); virtual-time measurement of retry delays",
            "Order within and across requests per partition, one batch at a time, only failed payloads retried and acknowledged senders told before the next round, geometric retry delays restarting per batch, attempt limit.", CL_NOTE, "DESIGN.md 3/C09"),
    "C19": ("PROD", "model-based stateful property testing: a reference model of the documented batching behaviour (uncancelled queue totals, in-flight batch, tick instants) against the real Producer; cancels, ticks, held replies and stop drawn by Hypothesis",
            "Never-early (a batch goes out only when a threshold over the uncancelled queue holds or the time limit ticked), never-late (warm, fault-free histories: thresholds met => dispatched; bounded wait with a time limit), cancel-before-dispatch never transmitted and uncounted, stop fails outstanding sends and transmits nothing, no timer left. Clause narrowing recorded in DESIGN.md: a send whose broker answer had already reached the client may be reported truthfully at stop.", CL_NOTE, "DESIGN.md 3/C19"),
})

CONS_T = "stateful property-based testing of the real Consumer + KafkaClient + codec on a simulated stateful cluster with a scripted processor; Hypothesis draws logs, start positions, scheduler choices, faults, stop/shutdown/crash points; oracles quote the partition log, the coordinator's offset store and the request stream; ddmin-shrunk JSON traces"
CHECKS.update({
    "C02": ("CONS", CONS_T,
            "Search over logs (wrappers in both formats, gaps, oversized messages), start positions, reply/processor/timer orders and fault sequences: every processor invocation is compared with the log from the resolved start position (order, no repeat, no omission, key/value), re-entrance while a result is pending is observed directly, and after faults cease the rest of the log must arrive.", CL_NOTE, "DESIGN.md 3/C02"),
    "C03": ("CONS", CONS_T,
            "Every OffsetCommit is judged at the instant it is issued against the set of successfully completed invocations; one commit outstanding; last-committed only from delivered replies; crash (consumer and client dropped, cluster kept) and restart from the committed position must deliver first exactly the record after the stored offset.", CL_NOTE, "DESIGN.md 3/C03"),
    "C13": ("CONS", CONS_T,
            "stop/shutdown drawn at any step (incl. from inside the processor, with a commit in flight or in backoff, with a reply parked): nothing issued or invoked afterwards, no afkak timer left, start()/shutdown() Deferreds fire exactly once (extra attempts counted) with the documented values, shutdown success implies the offset store holds the last processed offset, restart works.", CL_NOTE, "DESIGN.md 3/C13"),
    "C14": ("CONS", CONS_T,
            "Virtual-time measurement of retry delays after gap-free chains of consecutive failures (geometric, capped, reset by success), attempt limit, reset policy followed after out-of-range answers, buffer growth rule incl. across 1 MiB and at the maximum.", CL_NOTE, "DESIGN.md 3/C14"),
})

GRP_T = "stateful property-based testing of the real ConsumerGroup + KafkaClient + codec on a simulated cluster with a model of Kafka's group coordinator and harness-driven ghost members; Hypothesis draws rebalance histories, reply/timer orders, group error codes, held replies, network faults, processor behaviour and stop points; ddmin-shrunk JSON traces"
GRP_NOTE = CL_NOTE + " The group coordinator model (vlib/simgroup.py) is written from Kafka's documented state machine and self-checked; if it were stricter than a real broker, situations would differ, but every verdict quotes the model's ledger."
CHECKS.update({
    "C16": ("GRP", GRP_T,
            "Search over rebalance histories (ghosts joining, leaving, dying, stalling; member leader or follower; assignments moving), error codes on every group request and stop points: no consumer traffic or processor entry between JoinGroup and the successful SyncGroup, progress committed before an undisturbed rejoin, traffic only for assigned partitions from the committed position, commit identity, one join/sync in flight, heartbeats only while stable, nothing after stop completed.", GRP_NOTE, "DESIGN.md 3/C16"),
    "C17": ("GRP", GRP_T,
            "Liveness attacked as bounded liveness on a harness-owned clock: quiescence detection after every event (wedged = nothing outstanding), rejoin attempt within the documented backoff after each failed group request, and after faults cease stable membership + acknowledged heartbeat + consumption within a stated virtual-time horizon; non-Kafka processor errors must surface on start().", GRP_NOTE, "DESIGN.md 3/C17"),
})

TRACEFUZZ = {"C06", "C10", "C13", "C16", "C19", "C20"}

NOT_YET = {
}

ALL = ["C%02d" % i for i in range(1, 21)]


def main():
    checks = []
    for pid in ALL:
        if pid not in CHECKS:
            continue
        engine, technique, text, note, ref = CHECKS[pid]
        if pid in TRACEFUZZ:
            technique += "; plus coverage-guided fuzzing of the same trace driver (atheris/libFuzzer mutating Hypothesis' choice sequence, oracle inside the target: fuzz/traces.py)"
        checks.append(
            {
                "property_id": pid,
                "quick_cmd": "./check %s quick" % pid,
                "thorough_cmd": "./check %s thorough" % pid,
                "evidence_file": "evidence/%s.json" % pid,
                "replay_cmd_template": "./check %s --replay {path}" % pid,
                "engine": engine,
                "level_claimed": {"category": "exploration", "text": text, "design_ref": ref},
                "level_note": note,
                "technique": technique,
            }
        )
    na = []
    for pid in ALL:
        if pid not in CHECKS:
            na.append({"property_id": pid, "reason": NOT_YET.get(pid, "not claimed yet: its check is still being built (see DESIGN.md section 3 for the planned generator and oracle)")})
    man = {
        "version": 1,
        "setup_cmd": "./setup.sh",
        "hooks": {
            "guard": "AFKAK_VERIF",
            "enable": "no source hooks are needed: afkak takes its reactor and endpoint factory as constructor arguments, so the checks drive the unmodified classes; the guard name is reserved and unused",
            "baseline_off_cmd": "cd /repo && /venv/bin/python -m pytest -ra -q -p no:cacheprovider --timeout=900 --continue-on-collection-errors",
            "source_commits": [],
            "add_only": True,
        },
        "engines": [
            {"name": "BC", "path": "vlib/engines/bc.py", "serves_properties": ["C06", "C10", "C11", "C20"], "kind_free_text": "real _KafkaBrokerClient / KafkaBootstrapProtocol on simulated time and transports (vlib/simnet.py) against a scripted peer, with a reference model of the request table; traces are JSON and replay without Hypothesis"},
            {"name": "CL", "path": "vlib/engines/cl.py", "serves_properties": ["C04", "C07", "C08", "C11", "C20"], "kind_free_text": "real KafkaClient on simulated time/transports against vlib/simkafka.py (stateful cluster model built on the independent protocol implementation); Hypothesis draws calls, scheduler choices and faults; traces replay without Hypothesis"},
            {"name": "PROD", "path": "vlib/engines/prod.py", "serves_properties": ["C01", "C04", "C08", "C09", "C18", "C19"], "kind_free_text": "real Producer + KafkaClient on simulated time/transports against vlib/simkafka.py; acknowledgement ledger as ground truth; reference model of batching"},
            {"name": "CONS", "path": "vlib/engines/cons.py", "serves_properties": ["C02", "C03", "C08", "C12", "C13", "C14"], "kind_free_text": "real Consumer + KafkaClient on simulated time/transports against vlib/simkafka.py (partition log, offset store, long-poll fetch); scripted processor; crash = drop consumer and client, keep the cluster"},
            {"name": "GRP", "path": "vlib/engines/grp.py", "serves_properties": ["C11", "C15", "C16", "C17"], "kind_free_text": "real ConsumerGroup + KafkaClient on simulated time/transports against vlib/simkafka.py + vlib/simgroup.py (group coordinator model with session/rebalance timers, ghost members)"},
            {"name": "structured", "path": "checks/", "serves_properties": ["C04", "C05", "C12", "C15", "C18"], "kind_free_text": "Hypothesis @given over composite strategies with an independent protocol implementation (vlib/refproto) or foreign implementation (JVM) as oracle"},
        ],
        "checks": checks,
        "not_applicable": na,
        "notes": "All checks: ./check <id> quick|thorough ; replay: ./check <id> --replay <file>. Exit 0 held / 1 VIOLATION / 2 harness problem. Known findings: known_findings.txt.",
    }
    with open(os.path.join(HERE, "MANIFEST.json"), "w") as f:
        json.dump(man, f, indent=1)
    try:
        import jsonschema

        jsonschema.validate(man, json.load(open("/root/.vp/MANIFEST.schema.json")))
        print("MANIFEST.json valid;", len(checks), "checks,", len(na), "not claimed")
    except ImportError:
        print("written (jsonschema not importable)")


if __name__ == "__main__":
    main()
