"""C06 - each request completes exactly once, with the response bearing its own id (engine BC + bootstrap protocol)."""
from vlib.engines import bc
from vlib import tracefuzz
from vlib.engines.base import drive, run_trace

PROP = "C06"
FUZZ_ENGINE = bc.BCEngine  # fuzz/traces.py (coverage-guided trace search, thorough tier)
TECHNIQUE = "model-based stateful property testing (Hypothesis-driven operation sequences against a reference model of the request table), scheduler-owned byte-stream chunking and reply ordering; ddmin-shrunk traces; plus coverage-guided fuzzing of the same trace driver (atheris/libFuzzer mutating Hypothesis' choice sequence; fuzz/traces.py)"
RULE = (
    "traces over one real _KafkaBrokerClient and a scripted peer: makeRequest (fresh id / id of an in-flight request / id reused "
    "after completion; reply-expecting or not), cancel, accept/refuse connect, peer frames for received, answered, cancelled and "
    "unknown ids in any order, arbitrary chunking of the inbound byte stream, over-limit length prefixes, network drops, "
    "disconnect(), updateMetadata, close(), timers; a reference model predicts after every step the state and value of every "
    "request Deferred; at the end everything is closed and every Deferred must have fired exactly once. A second machine does the "
    "same for KafkaBootstrapProtocol. non-trivial = >= 2 requests outstanding together with answers out of issue order, a late "
    "reply to a cancelled request, a split frame or a drop with mixed requests; distinct = distinct trace."
    ' A response callback may close the broker client from inside the delivery (the model learns of the close at that instant; close() must not raise there, every other pending request fails, nothing hangs).'
    ' Correlation ids cover the whole int32 range (first ids 1, 7, 2^31-3, -3, -2^31; the counter wraps like an int32).'
    " Replies may be coalesced into one chunk (op merge, script 'coalesced': three requests answered in any order in one or two chunks, the first one's callback may close the client between two frames of a chunk); an owner's errback may cancel another pending request (also while close() is failing them); a cancelled request's id may be used again before its late reply arrives (script 'latereply')."
)
ASSUMPTIONS = [
    "an exception that escapes the broker client's dataReceived / connectionLost / timer callbacks into the (simulated) reactor counts as a violation: a reactor logs it and the rest of that event's handling is lost; none occurs on the unchanged tree",
    "frames shorter than 4 bytes are not generated (the property gives them no meaning)",
    "identity of a response is its correlation id, as the property states; reuse of the id of a cancelled-but-unanswered request is not generated (behaviour unspecified)",
]


def shard(ctx):
    drive(ctx, bc.BCEngine, ctx.n(16 * 500, 16 * 10000), min_steps=6, max_steps=60, props={"C06"})
    drive(ctx, bc.BPEngine, ctx.n(16 * 40, 16 * 2000), min_steps=4, max_steps=30, offset=1, props={"C06"})
    # coverage-guided trace search (atheris driving the same Hypothesis driver): 2 campaigns in the quick tier, 4 in the thorough one
    tracefuzz.run(ctx, "c06", 400 if ctx.tier == "quick" else 40000, nshards=2 if ctx.tier == "quick" else 4)


def replay(case, ctx):
    eng = bc.BPEngine if case.get("engine") == "BP" else bc.BCEngine
    run_trace(eng, case, ctx, props={"C06"})
