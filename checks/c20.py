"""C20 (engine CL) - see RULE."""
from vlib.engines import bc as _bc
from vlib.engines import cl
from vlib import tracefuzz
from vlib.engines.base import drive, run_trace

PROP = "C20"
NT = set("close-with-pending-calls-and-connections".split(","))


class Eng(cl.CLEngine):
    MACROS = ["warmup", "remove2", "remove2", "remove", "timeout", "partial", "closebusy", "closebusy", "closebackoff", "closebackoff", "closeconnecting"]
    MACRO_ONE_IN = 4

    @classmethod
    def config_strategy(cls):
        # with version discovery on, most busy moments have a broker-agnostic ApiVersions request in flight and close() then runs into the
        # recorded bootstrap-path finding; half of the configs switch discovery off so that the search also covers plain busy states
        from hypothesis import strategies as st

        def plain(t):
            cfg, yes = t
            if not yes:
                return cfg
            # ... and every partition has a leader, so that calls are broker-aware instead of waiting for a metadata reload
            topics = [dict(x, leaders=[(n if n > 0 else 1 + (i % cfg["brokers"])) for i, n in enumerate(x["leaders"])]) for x in cfg["topics"]]
            return dict(cfg, discovery="off", topics=topics)

        return st.tuples(cl.config_strategy(), st.booleans()).map(plain)

    def nontrivial(self):
        return bool(self.nt & NT) or bool(NT & self.labels)


class BcEng(_bc.BCEngine):
    """the anchored mechanism 'broker client close: drop connection or cancel attempt, fail pending requests' on its own: close() while
    connecting, backing off, with written and unwritten requests, from inside a response callback, with errbacks that cancel siblings"""

    def nontrivial(self):
        return "closed-with-pending" in self.nt or "closed-from-response-callback" in self.nt or "errback-cancelled-sibling" in self.nt


def shard(ctx):
    drive(ctx, BcEng, ctx.n(16 * 60, 16 * 1500), min_steps=6, max_steps=40, offset=5, props={"C20"})
    drive(ctx, Eng, ctx.n(16 * 250, 16 * 6000), min_steps=8, max_steps=70, props={"C20"})
    # coverage-guided trace search (atheris driving the same Hypothesis driver, fuzz/traces.py)
    tracefuzz.run(ctx, "c20", 120 if ctx.tier == "quick" else 6000, nshards=2 if ctx.tier == "quick" else 4)


def replay(case, ctx):
    if isinstance(case, dict) and case.get("engine") == "BC":
        run_trace(BcEng, case, ctx, props={"C20"})
        return
    run_trace(Eng, case, ctx, props={"C20"})

TECHNIQUE = "stateful property-based testing: close() drawn at any step of a client trace (bootstrapping, connecting, backing off, requests in flight on several brokers, brokers being closed by a refresh), then every ordering of connectionLost notifications and late events; plus coverage-guided fuzzing of the same trace driver (atheris/libFuzzer mutating Hypothesis' choice sequence; fuzz/traces.py)"
RULE = (
    "engine CL; close() at a generated step; oracle: immediately after close() returns every pending call has failed, every later call fails, no connection "
    "attempt and no write happens afterwards, every connection open at close is closed by the client and the close Deferred fires exactly once in the step "
    "that delivers the last connectionLost (synchronously when none), caches are empty, no delayed call remains. non-trivial = close with >=1 call pending and "
    "connections/attempts on >=2 distinct hosts; distinct = distinct trace."
    ' Scripts close the client in busy states (requests in flight on several brokers with held replies, a broker in reconnect back-off incl. synchronous refusals, a connection attempt pending); half of the configurations have discovery off and a leader for every partition so that busy states are reached that do not run into the recorded bootstrap-path finding.'
    " The broker client's own close() (engine BC): called while connecting, backing off, with written and unwritten requests, from inside a response callback, and with owner errbacks that cancel a sibling request while close() is failing them - it never raises, every pending request fails (ClientError, or CancelledError for one its owner cancelled meanwhile), its Deferred fires once and only when the connection or attempt is gone."
)
ASSUMPTIONS = []
