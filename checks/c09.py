"""C09 (engine PROD) - see RULE."""
from vlib.engines import prod
from vlib.engines.base import drive, run_trace

PROP = "C09"
NT = set("partial-failure-attempt,retry-delay-measured".split(","))


class Eng(prod.PRODEngine):
    MACROS = ["partial", "partial", "partial", "exhaust", "leadermove", "sendduringretry", "sendduringretry", "burst"]
    MACRO_ONE_IN = 3

    def nontrivial(self):
        return bool(self.nt & NT) or bool(NT & self.labels)


def shard(ctx):
    drive(ctx, Eng, ctx.n(16 * 250, 16 * 5000), min_steps=8, max_steps=70, props={"C09"})


def replay(case, ctx):
    run_trace(Eng, case, ctx, props={"C09"})

TECHNIQUE = "stateful property-based testing of the real Producer + KafkaClient on a simulated cluster; invariants over the whole history of produce requests (attributed to sends, batches, rounds and attempts by unique message tags and correlation-id runs), per-partition outcome patterns drawn per attempt"
RULE = (
    "same trace space as C01 biased to several sends per partition, batches spanning partitions and brokers, per-partition error codes that differ between "
    "attempts and sends issued while a batch or retry is pending; oracle over the produce-request stream: within a payload sends appear in call order, each "
    "message once; an earlier send to a partition is never first transmitted after a later one; no new batch is transmitted while a send of an earlier batch "
    "is unresolved; a payload acknowledged with error 0 (reply delivered in time) is never transmitted again and its senders have fired before the next round "
    "of the batch goes out; after a cleanly failed round the next write comes interval*RETRY_INTERVAL_FACTOR^(a-1) later and the progression restarts per batch; "
    "no send is transmitted in more than max_req_attempts attempts. non-trivial = an attempt in which a proper subset of a batch's payloads failed, or a "
    "measured retry delay; distinct = distinct trace."
)
ASSUMPTIONS = [
    "rounds are recognised as runs of consecutive correlation ids without a repeated (topic, partition); message identity by unique tags in the first value of each send",
    "the delay clause is evaluated only for rounds in which every request got an error-coded reply delivered in time and no topic-metadata fault was injected",
]
