"""C03 (engine CONS) - see RULE."""
from vlib.engines import cons
from vlib.engines.base import drive, run_trace

PROP = "C03"
NT = set("several-commits,crash-between-processing-and-commit,resumed-from-committed-offset".split(","))


class Eng(cons.CONSEngine):
    MACROS = ["steady", "asyncoverlap", "commitretry", "commitretry", "stopmid", "shutdownmid", "crash", "crash"]
    MACRO_ONE_IN = 4

    def nontrivial(self):
        return bool(self.nt & NT) or bool(NT & self.labels)


def shard(ctx):
    drive(ctx, Eng, ctx.n(16 * 250, 16 * 4000), min_steps=6, max_steps=70, props={"C03"})


def replay(case, ctx):
    run_trace(Eng, case, ctx, props={"C03"})


TECHNIQUE = "stateful property-based testing of the real Consumer + KafkaClient + codec on a simulated stateful cluster (virtual clock, harness-owned schedule) with a scripted processor (sync / async / raising / stopping / committing inside); Hypothesis draws logs, start positions, scheduler choices, faults, stop/shutdown/crash points; oracles quote the partition log, the coordinator's offset store and the request stream; ddmin-shrunk JSON traces"
RULE = (
    "traces over one Consumer (buffer 64..1 MiB+1, optional maximum, retry delays 0.05..30 s, attempt limit 0..5, reset policy none/earliest/latest, auto-commit every n / every ms, with or without a group) on a 1-2 broker simulated cluster; the log holds plain and gzip-wrapper batches in message format 0 or 1 with compaction gaps, null values and messages larger than the buffer, and is appended to / head-truncated while the consumer runs; steps: start (numeric / earliest / latest / committed), deliver or hold a reply, fire a timer, complete an async processor call (ok / fail), commit, stop, shutdown, crash (drop the consumer object and client, keep the cluster), error codes on fetch / offsets / commit / coordinator lookup, connection drops, broker down/up, leader and coordinator moves. oracle: each OffsetCommit is judged when the consumer issues it (wrapped public client call): its offset is the end of a successfully completed invocation, equals the consumer's last processed offset at that instant, and no delivered message at or below it belongs to a failed, running or cancelled invocation; at most one commit request of a run is unanswered at a time (re-sends after a timeout excepted); whenever the consumer's last-committed attribute changes, the new value was acknowledged by a delivered commit reply or reported by a delivered offset-fetch reply; commits of a plain consumer carry generation -1 and empty member; a run started from the committed position delivers first exactly the first log record after the offset the store returned. non-trivial = several commits in one run, a crash between processing and commit followed by a restart, or a resume from a stored offset; distinct = distinct trace."
    ' A committed start must have asked the coordinator (OffsetFetch) before its first fetch; processor failures include CancelledError raised by the application.'
    ' The committed number is also compared with the offset the broker stores for the last processed message (messages are identified by their unique values), so offsets mis-reported to the processor cannot hide a commit that is ahead.'
)
ASSUMPTIONS = ['simkafka models a 0.10-era broker incl. wrappers returned whole, mid-message cuts at max_bytes and long polls (DESIGN.md 2.4)', 'a reply counts as received only if delivered before the client-side deadline of its request; replies to a previous run or incarnation are attributed by correlation id and run', 'connect latency 5 ms, service latency per reply drawn; retry-delay expectations use the constants documented in afkak/consumer.py (factor 1.20205)']
