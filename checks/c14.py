"""C14 (engine CONS) - see RULE."""
from vlib.engines import cons
from vlib.engines.base import drive, run_trace

PROP = "C14"
NT = set("consecutive-failures,retry-delay-capped,buffer-growth,buffer-growth-across-1MiB,offset-reset-policy-fired,buffer-at-maximum".split(","))


class Eng(cons.CONSEngine):
    def nontrivial(self):
        return bool(self.nt & NT) or bool(NT & self.labels)


def shard(ctx):
    drive(ctx, Eng, ctx.n(16 * 100, 16 * 3000), min_steps=6, max_steps=70, props={"C14"})


def replay(case, ctx):
    run_trace(Eng, case, ctx, props={"C14"})


TECHNIQUE = "stateful property-based testing of the real Consumer + KafkaClient on a simulated stateful cluster with a scripted processor (sync / async / raising / stopping / committing inside); Hypothesis draws logs, start positions, scheduler choices, faults, stop/shutdown/crash points; oracles quote the partition log, the coordinator's offset store and the request stream"
RULE = "see DESIGN.md section 3/C14; traces over Consumer+KafkaClient+simkafka; distinct = distinct trace"
ASSUMPTIONS = ["simkafka models a 0.10-era broker incl. wrappers returned whole, mid-message cuts at max_bytes and long polls (DESIGN.md 2.4)"]
