"""C14 (engine CONS) - see RULE."""
from vlib.engines import cons
from vlib.engines.base import drive, run_trace

PROP = "C14"
NT = set("consecutive-failures,retry-delay-capped,buffer-growth,buffer-growth-across-1MiB,offset-reset-policy-fired,buffer-at-maximum".split(","))


class Eng(cons.CONSEngine):
    MACROS = ["steady", "failfetch", "failfetch", "failempty", "failempty", "oor", "oor", "failoor", "failoor", "bigmsg", "bigmsg"]
    MACRO_ONE_IN = 4

    def nontrivial(self):
        return bool(self.nt & NT) or bool(NT & self.labels)


def shard(ctx):
    drive(ctx, Eng, ctx.n(16 * 250, 16 * 4000), min_steps=6, max_steps=70, props={"C14"})


def replay(case, ctx):
    run_trace(Eng, case, ctx, props={"C14"})


TECHNIQUE = "stateful property-based testing of the real Consumer + KafkaClient + codec on a simulated stateful cluster (virtual clock, harness-owned schedule) with a scripted processor (sync / async / raising / stopping / committing inside); Hypothesis draws logs, start positions, scheduler choices, faults, stop/shutdown/crash points; oracles quote the partition log, the coordinator's offset store and the request stream; ddmin-shrunk JSON traces"
RULE = (
    'traces over one Consumer (buffer 64..1 MiB+1, optional maximum, retry delays 0.05..30 s, attempt limit 0..5, reset policy none/earliest/latest, auto-commit every n / every ms, with or without a group) on a 1-2 broker simulated cluster; the log holds plain and gzip-wrapper batches in message format 0 or 1 with compaction gaps, null values and messages larger than the buffer, and is appended to / head-truncated while the consumer runs; steps: start (numeric / earliest / latest / committed), deliver or hold a reply, fire a timer, complete an async processor call (ok / fail), commit, stop, shutdown, crash (drop the consumer object and client, keep the cluster), error codes on fetch / offsets / commit / coordinator lookup, connection drops, broker down/up, leader and coordinator moves. oracle on virtual time: after the k-th consecutive failed offset/fetch request (a chain that starts right after a timely success, gap-free, no request of unknown fate in between) the next request is written min(initial * 1.20205^(k-1), maximum) seconds after the failure reached the client (tolerance 1 ms), and the series restarts at the initial delay after a success (also an empty fetch); with an attempt limit the start() Deferred fails after no more than that many consecutive failures; an out-of-range answer is followed by a ListOffsets for earliest/latest per policy, or fails start() with OffsetOutOfRangeError when none; a message that does not fit the buffer is re-fetched at the same offset with the buffer x16 while <= 1 MiB, else x2, capped at the maximum; at the maximum start() fails with ConsumerFetchSizeTooSmall and the consumer never moves past the message. non-trivial = at least two consecutive failures measured, a capped delay, buffer growth (also across 1 MiB), buffer at maximum, or a reset policy firing; distinct = distinct trace.'
    " The retry delay is measured at the consumer's next call of the client API (not at the write); the attempt limit is violated when another request follows the limit-th consecutive failure, out-of-range answers included (script 'failoor'); retry_max in {1x, 1.3x, 2x init, 0.5/1, 30}."
)
ASSUMPTIONS = ['simkafka models a 0.10-era broker incl. wrappers returned whole, mid-message cuts at max_bytes and long polls (DESIGN.md 2.4)', 'a reply counts as received only if delivered before the client-side deadline of its request; replies to a previous run or incarnation are attributed by correlation id and run', 'connect latency 5 ms, service latency per reply drawn; retry-delay expectations use the constants documented in afkak/consumer.py (factor 1.20205)']
