"""C10 - after a connection drop, unanswered requests are re-sent once, in order (engine BC)."""
from vlib.engines import bc
from vlib import tracefuzz
from vlib.engines.base import drive, run_trace

PROP = "C10"
FUZZ_ENGINE = bc.BCEngine  # fuzz/traces.py (coverage-guided trace search, thorough tier)
TECHNIQUE = "model-based stateful property testing: a reference model predicts, step by step, the exact frames written per connection and the time and address of every connection attempt; drops injected at every event boundary; ddmin-shrunk traces; plus coverage-guided fuzzing of the same trace driver (atheris/libFuzzer mutating Hypothesis' choice sequence; fuzz/traces.py)"
RULE = (
    "same trace space as C06 (engine BC) with drops before/between/inside frames, while connecting and during backoff, 0..n "
    "consecutive refused attempts, a generated retry policy (linear / exponential / constant), updateMetadata between "
    "connections and close() anywhere; oracle: frames written in each step equal the model's prediction (unanswered, "
    "uncancelled, reply-expecting requests in issue order on a new connection; never answered, cancelled or no-reply ones "
    "again), an attempt is made in the very step a connection with pending requests is lost, after the k-th consecutive failure "
    "exactly policy(k) later, to the current address, none when idle and none after close(); close() fails pending requests "
    "with ClientError and its Deferred fires only when the connection is gone. non-trivial = a drop with unanswered plus "
    "answered/cancelled requests, or >= 2 drops, or >= 2 consecutive connect failures; distinct = distinct trace."
    ' Retry policies ask for up to 40 s between attempts (lin/exp/const with bases up to 40), so caps and resets of the failure count are visible.'
    ' A connection attempt may fail before connect() returns (op syncref): it counts as a failed attempt made at that instant, the next one is due one retry-policy delay later, close() during that back-off cancels it.'
    ' close() is also called with owner errbacks that cancel a sibling request while it is failing them (either ClientError or CancelledError is right for the sibling; close() itself must not raise).'
)
ASSUMPTIONS = [
    "an exception that escapes the broker client's dataReceived / connectionLost / timer callbacks into the (simulated) reactor counts as a violation: a reactor logs it and the rest of that event's handling is lost; none occurs on the unchanged tree",
    "writes and connection attempts are expected in the same step as their trigger (the broker client performs them synchronously)",
]


class Eng(bc.BCEngine):
    def nontrivial(self):
        return bool(self.nt & {"drop-with-mixed-requests", "two-drops", "drop-mid-frame"}) or "consecutive-connect-failures" in self.labels


def shard(ctx):
    drive(ctx, Eng, ctx.n(16 * 500, 16 * 10000), min_steps=6, max_steps=60, props={"C10"})
    # coverage-guided trace search (atheris driving the same Hypothesis driver): 2 campaigns in the quick tier, 4 in the thorough one
    tracefuzz.run(ctx, "c10", 400 if ctx.tier == "quick" else 40000, nshards=2 if ctx.tier == "quick" else 4)


def replay(case, ctx):
    run_trace(Eng, case, ctx, props={"C10"})
