"""C08 (engine CL) - see RULE."""
from vlib.engines import cl
from vlib.engines import cons as _cons
from vlib.engines import prod as _prod
from vlib.engines.base import drive, run_trace

PROP = "C08"
NT = set("several-metadata-replies,full-refresh-removes-connected-broker,broker-readdressed".split(","))


class Eng(cl.CLEngine):
    MACROS = ["warmup", "notleader", "notleader", "readdress", "readdress", "remove", "remove2", "partial", "topicgone", "topicgone", "noconn", "noconn"]
    MACRO_ONE_IN = 8

    def nontrivial(self):
        return bool(self.nt & NT) or bool(NT & self.labels)


class ProdRec(_prod.PRODEngine):
    """the last sentence of C08 through a running producer: after leader moves, restarts, refused connections and outages longer than the
    request timeout, a send issued once the faults have ceased is acknowledged within the retry budget"""
    BATCHING = "never"
    MACROS = ["leadermove", "leadermove", "outage", "outage", "partial"]
    MACRO_ONE_IN = 3

    def nontrivial(self):
        return "recovered-after-faults" in self.nt


class ConsRec(_cons.CONSEngine):
    """... and through a running consumer: it resumes delivering once the faults have ceased"""
    MACROS = ["outage", "outage", "failfetch", "failfetch", "failempty", "steady"]
    MACRO_ONE_IN = 3

    def nontrivial(self):
        return "recovered-after-faults" in self.nt


def shard(ctx):
    drive(ctx, ProdRec, ctx.n(16 * 60, 16 * 1500), min_steps=8, max_steps=60, offset=8, props={"C08"})
    drive(ctx, ConsRec, ctx.n(16 * 150, 16 * 2500), min_steps=8, max_steps=60, offset=9, props={"C08"})
    drive(ctx, Eng, ctx.n(16 * 250, 16 * 6000), min_steps=8, max_steps=70, props={"C08"})


def replay(case, ctx):
    eng = {"PROD": ProdRec, "CONS": ConsRec}.get(case.get("engine") if isinstance(case, dict) else None, Eng)
    run_trace(eng, case, ctx, props={"C08"})

TECHNIQUE = "stateful property-based testing: histories of metadata replies (partial/full, topics erroring, leaders moving, brokers removed or re-addressed) interleaved with requests on the real KafkaClient; the cache view is compared with the delivered replies after every event"
RULE = (
    "same trace space as C07 (engine CL) biased by leader moves, topic errors, broker down/up with address change, reset_topic_metadata and "
    "load_metadata_for_topics(partial/full); oracle: (a) when a load call succeeds the view (topic_partitions, topics_to_brokers, topic_errors) of every "
    "topic in the completing reply equals that reply; (b) after every event each topic's view is empty or equals one whole delivered reply no older "
    "than the last witnessed one; after a full refresh with a non-empty broker list every broker-client connection to a node outside it is closed; broker "
    "clients dial only addresses a reply gave, never one older than the witnessed reply; after a failed send no request for the topic is written before a "
    "Metadata request covering it. non-trivial = >=2 delivered metadata replies, or a full refresh removing a connected broker, or a re-addressed broker; "
    "distinct = distinct trace. The recovery clause (producing/consuming resume) is checked with the PROD and CONS engines (ProdRec, ConsRec: leader moves, restarts, refused connections, script 'outage' = a leader unreachable for longer than the request timeout; after the faults cease a fresh send is acknowledged / the consumer delivers the rest of the log)."
    " Topics can be deleted and re-created with fewer partitions (ops tdel/tnew, script 'topicgone'); the reply a load consumed is matched by correlation id and address knowledge is ordered by delivery; an acks=0 success with an unwritten payload is a hidden failed send that must have invalidated the routing."
    " A failed send invalidates what it used: the failed payloads' topics, or - for OffsetCommit/OffsetFetch - the group's cached coordinator (no such request of a later call before a FindCoordinator for the group is written or a FindCoordinator reply for it is delivered). Metadata replies list partitions in ascending, descending or rotated order (md_order)."
    ' A consumer with an attempt limit N >= 3 that gives up after fewer than N-1 consecutive failures following a success did not resume within its retry budget.'
)
ASSUMPTIONS = ["whether a delivered reply was consumed is not observable (late replies are discarded), hence clause (b) quantifies over all delivered replies since the last witnessed one"]
