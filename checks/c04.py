"""C04 - every request on the wire conforms to the protocol grammar.

(a) structured PBT of the request encoders against refproto's strict parsers
(b) version negotiation end-to-end through KafkaClient on the simulated cluster (added by engines/cl.py)
"""
import struct
from unittest import mock

from hypothesis import strategies as st

from vlib import refproto as rp
from vlib.runner import hyp

PROP = "C04"
TECHNIQUE = "property-based testing: generated request arguments -> afkak encoder -> independent strict parser (refproto) -> field-for-field comparison; stateful version-negotiation traces against the simulated cluster"
RULE = (
    "(a) for each of the 14 KafkaCodec request encoders (and create_message_set feeding produce) arguments are drawn from "
    "composite strategies (boundary and interior ints, empty/unicode/long strings, null/empty/70KiB byte fields, 0..4 topics x "
    "0..4 partitions x 0..6 messages, both message formats, codec none/gzip, produce/fetch versions 0,1,2 and larger); the "
    "emitted bytes must parse under refproto's strict parser (whole frame consumed) to exactly the supplied values. "
    "non-trivial = an in-domain case with >= 1 topic with >= 1 partition (for produce >= 1 message; for the group APIs >= 1 "
    "protocol/assignment entry or a non-ASCII string), not rejected; distinct = distinct argument tuple. "
    "(b) generated ApiVersions tables / brokers that do not answer, then produce and fetch calls through KafkaClient: header "
    "version within the advertised range and in {0,1,2}, body and message magic fit it, reply decoded with the matching decoder, "
    "fallback to 0 after failed discovery; non-trivial = discovery attempted and at least one produce and one fetch completed."
    " End to end (engines CL and PROD) the client is configured with client ids 'verif', '', a non-ASCII one or None (library default) and the simulated brokers compare the header of every request with the configured id."
)
ASSUMPTIONS = [
    "refproto (vlib/refproto.py) is a correct strict implementation of the request grammar; it is self-checked against golden "
    "byte strings hand-written in afkak/test/test_kafkacodec.py",
    "inputs outside an encoder's documented domain (non-ASCII in an ASCII field, over-long strings, out-of-range ints) may be "
    "rejected with an exception; they are counted as rejected, never flagged",
    "snappy is not installed, so 'any available compression' is gzip",
]

I16 = st.one_of(st.integers(-(2 ** 15), 2 ** 15 - 1), st.sampled_from([-(2 ** 15), -1, 0, 1, 2 ** 15 - 1]))
I32 = st.one_of(st.integers(-(2 ** 31), 2 ** 31 - 1), st.sampled_from([-(2 ** 31), -1, 0, 1, 2 ** 31 - 1]), st.integers(0, 100))
I64 = st.one_of(st.integers(-(2 ** 63), 2 ** 63 - 1), st.sampled_from([-(2 ** 63), -2, -1, 0, 1, 2 ** 63 - 1]), st.integers(0, 10000))
PART = st.one_of(st.integers(0, 12), st.integers(0, 2 ** 31 - 1))
CORR = I32
CLIENT_ID = st.one_of(st.binary(max_size=24), st.just(b""), st.just(b"afkak-client"), st.binary(min_size=300, max_size=400), st.just(b"x" * 32767))
_topic_chars = "abcdefghijklmnopqrstuvwxyzABCDEFGHIJKLMNOPQRSTUVWXYZ0123456789._-"
TOPIC = st.one_of(st.text(_topic_chars, min_size=1, max_size=12), st.text(_topic_chars, min_size=240, max_size=249))
ASCII = st.text(st.characters(min_codepoint=0, max_codepoint=127), max_size=20)
TEXT = st.one_of(st.text(max_size=20), ASCII, st.just(""), st.text(st.characters(min_codepoint=0x80, max_codepoint=0x2FFF), min_size=1, max_size=8))
VALUE = st.one_of(st.none(), st.just(b""), st.binary(max_size=40), st.binary(min_size=1, max_size=300), st.just(b"\xa5" * 70000))
KEY = st.one_of(st.none(), st.just(b""), st.binary(max_size=16))
BLOB = st.one_of(st.just(b""), st.binary(max_size=60))


def _tp_list(max_topics=4, max_parts=4):
    """unique (topic, partition) pairs in arbitrary order."""
    return st.lists(st.tuples(TOPIC, PART), max_size=max_topics * max_parts, unique=True).map(
        lambda l: l[: max_topics * max_parts]
    )


@st.composite
def s_produce(draw):
    ver = draw(st.sampled_from([0, 0, 1, 2, 2, 2, 3, 7]))
    magic = 1 if ver >= 2 else 0
    tps = draw(_tp_list(3, 3))
    mode = draw(st.sampled_from(["explicit", "cms", "cms", "cms-gzip", "cms-gzip"]))
    payloads = []
    for t, p in tps:
        if mode == "explicit":
            msgs = draw(st.lists(st.tuples(KEY, VALUE, st.integers(0, 3) if False else st.just(0), I64 if magic else st.none()), max_size=5))
            payloads.append({"topic": t, "partition": p, "msgs": [list(m) for m in msgs]})
        else:
            reqs = draw(st.lists(st.tuples(KEY, st.lists(VALUE, min_size=1, max_size=4)), min_size=1, max_size=3))
            payloads.append({"topic": t, "partition": p, "reqs": [[k, v] for k, v in reqs]})
    return {
        "enc": "produce", "client_id": draw(CLIENT_ID), "corr": draw(CORR), "acks": draw(st.one_of(st.sampled_from([0, 1, -1]), I16)),
        "timeout": draw(I32), "version": ver, "mode": mode, "now_ms": draw(st.integers(0, 2 ** 41)), "payloads": payloads,
    }


@st.composite
def s_fetch(draw):
    tps = draw(_tp_list())
    return {
        "enc": "fetch", "client_id": draw(CLIENT_ID), "corr": draw(CORR), "version": draw(st.sampled_from([0, 1, 2, 2, 5])),
        "max_wait": draw(I32), "min_bytes": draw(I32),
        "payloads": [{"topic": t, "partition": p, "offset": draw(I64), "max_bytes": draw(I32)} for t, p in tps],
    }


@st.composite
def s_offsets(draw):
    tps = draw(_tp_list())
    return {
        "enc": "offsets", "client_id": draw(CLIENT_ID), "corr": draw(CORR),
        "payloads": [{"topic": t, "partition": p, "time": draw(st.one_of(st.sampled_from([-1, -2]), I64)), "max": draw(I32)} for t, p in tps],
    }


@st.composite
def s_metadata(draw):
    return {"enc": "metadata", "client_id": draw(CLIENT_ID), "corr": draw(CORR), "topics": draw(st.one_of(st.none(), st.lists(TOPIC, max_size=5)))}


@st.composite
def s_find_coord(draw):
    return {"enc": "find_coordinator", "client_id": draw(CLIENT_ID), "corr": draw(CORR), "group": draw(st.one_of(ASCII, TEXT))}


@st.composite
def s_commit(draw):
    tps = draw(_tp_list())
    return {
        "enc": "offset_commit", "client_id": draw(CLIENT_ID), "corr": draw(CORR), "group": draw(st.one_of(ASCII, ASCII, TEXT)),
        "generation": draw(I32), "member": draw(st.one_of(ASCII, ASCII, TEXT)),
        "payloads": [
            {"topic": t, "partition": p, "offset": draw(I64), "timestamp": draw(st.one_of(st.just(-1), I64)),
             "metadata": draw(st.one_of(st.none(), st.just(b""), st.binary(max_size=20)))}
            for t, p in tps
        ],
    }


@st.composite
def s_offset_fetch(draw):
    tps = draw(_tp_list())
    return {"enc": "offset_fetch", "client_id": draw(CLIENT_ID), "corr": draw(CORR), "group": draw(st.one_of(ASCII, ASCII, TEXT)),
            "payloads": [{"topic": t, "partition": p} for t, p in tps]}


@st.composite
def s_join(draw):
    return {
        "enc": "join_group", "client_id": draw(CLIENT_ID), "corr": draw(CORR), "group": draw(TEXT), "session_timeout": draw(I32),
        "member": draw(TEXT), "protocol_type": draw(TEXT),
        "protocols": draw(st.lists(st.tuples(ASCII, BLOB), max_size=4)),
    }


@st.composite
def s_sync(draw):
    return {
        "enc": "sync_group", "client_id": draw(CLIENT_ID), "corr": draw(CORR), "group": draw(TEXT), "generation": draw(I32),
        "member": draw(TEXT), "assignments": draw(st.lists(st.tuples(TEXT, BLOB), max_size=4)),
    }


@st.composite
def s_heartbeat(draw):
    return {"enc": "heartbeat", "client_id": draw(CLIENT_ID), "corr": draw(CORR), "group": draw(TEXT), "generation": draw(I32), "member": draw(TEXT)}


@st.composite
def s_leave(draw):
    return {"enc": "leave_group", "client_id": draw(CLIENT_ID), "corr": draw(CORR), "group": draw(TEXT), "member": draw(TEXT)}


@st.composite
def s_api_versions(draw):
    return {"enc": "api_versions", "client_id": draw(CLIENT_ID), "corr": draw(CORR)}


@st.composite
def s_subscription(draw):
    return {"enc": "subscription", "version": draw(st.sampled_from([0, 0, 1])), "topics": draw(st.lists(TEXT, max_size=5)),
            "user_data": draw(st.one_of(st.none(), BLOB))}


@st.composite
def s_assignment(draw):
    topics = draw(st.lists(TOPIC, max_size=4, unique=True))
    return {"enc": "assignment", "version": 0, "assignment": [[t, draw(st.lists(PART, max_size=5))] for t in topics],
            "user_data": draw(st.one_of(st.none(), BLOB))}


STRATS = [
    ("produce", s_produce), ("fetch", s_fetch), ("offsets", s_offsets), ("metadata", s_metadata), ("find_coordinator", s_find_coord),
    ("offset_commit", s_commit), ("offset_fetch", s_offset_fetch), ("join_group", s_join), ("sync_group", s_sync),
    ("heartbeat", s_heartbeat), ("leave_group", s_leave), ("api_versions", s_api_versions), ("subscription", s_subscription),
    ("assignment", s_assignment),
]


def _is_ascii(s):
    try:
        s.encode("ascii")
        return True
    except UnicodeEncodeError:
        return False


def _short(s, enc="utf-8"):
    return len(s.encode(enc)) <= 32767


def in_domain(a):
    """Are all values inside the documented domain of the encoder?"""
    if "client_id" in a and len(a["client_id"]) > 32767:
        return False
    e = a["enc"]
    if e in ("find_coordinator", "offset_commit", "offset_fetch"):
        if not _is_ascii(a["group"]):
            return False
    if e == "offset_commit" and not _is_ascii(a["member"]):
        return False
    if e == "join_group" and not all(_is_ascii(n) for n, _ in a["protocols"]):
        return False
    return True


def encode(a):
    """Call the afkak encoder for argument record a."""
    from afkak import common as C
    from afkak.kafkacodec import KafkaCodec, create_message_set

    e = a["enc"]
    if e == "produce":
        magic = 1 if a["version"] >= 2 else 0
        payloads = []
        clock = mock.Mock()
        clock.time = lambda: a["now_ms"] / 1000.0
        with mock.patch("afkak.kafkacodec.time", clock):
            for p in a["payloads"]:
                if a["mode"] == "explicit":
                    msgs = [C.Message(magic, attr, k, v, ts) if magic else C.Message(magic, attr, k, v) for (k, v, attr, ts) in p["msgs"]]
                else:
                    reqs = [C.SendRequest(p["topic"], k, vs, None) for k, vs in p["reqs"]]
                    codec = C.CODEC_GZIP if a["mode"] == "cms-gzip" else C.CODEC_NONE
                    msgs = create_message_set(reqs, codec, magic=magic) if magic else create_message_set(reqs, codec)
                payloads.append(C.ProduceRequest(p["topic"], p["partition"], msgs))
            return KafkaCodec.encode_produce_request(a["client_id"], a["corr"], payloads, acks=a["acks"], timeout=a["timeout"], api_version=a["version"])
    if e == "fetch":
        pl = [C.FetchRequest(p["topic"], p["partition"], p["offset"], p["max_bytes"]) for p in a["payloads"]]
        return KafkaCodec.encode_fetch_request(a["client_id"], a["corr"], pl, max_wait_time=a["max_wait"], min_bytes=a["min_bytes"], api_version=a["version"])
    if e == "offsets":
        pl = [C.OffsetRequest(p["topic"], p["partition"], p["time"], p["max"]) for p in a["payloads"]]
        return KafkaCodec.encode_offset_request(a["client_id"], a["corr"], pl)
    if e == "metadata":
        return KafkaCodec.encode_metadata_request(a["client_id"], a["corr"], a["topics"])
    if e == "find_coordinator":
        return KafkaCodec.encode_consumermetadata_request(a["client_id"], a["corr"], a["group"])
    if e == "offset_commit":
        pl = [C.OffsetCommitRequest(p["topic"], p["partition"], p["offset"], p["timestamp"], p["metadata"]) for p in a["payloads"]]
        return KafkaCodec.encode_offset_commit_request(a["client_id"], a["corr"], a["group"], a["generation"], a["member"], pl)
    if e == "offset_fetch":
        pl = [C.OffsetFetchRequest(p["topic"], p["partition"]) for p in a["payloads"]]
        return KafkaCodec.encode_offset_fetch_request(a["client_id"], a["corr"], a["group"], pl)
    if e == "join_group":
        protos = [C._JoinGroupRequestProtocol(n, m) for n, m in a["protocols"]]
        return KafkaCodec.encode_join_group_request(a["client_id"], a["corr"], C._JoinGroupRequest(a["group"], a["session_timeout"], a["member"], a["protocol_type"], protos))
    if e == "sync_group":
        asg = [C._SyncGroupRequestMember(m, b) for m, b in a["assignments"]]
        return KafkaCodec.encode_sync_group_request(a["client_id"], a["corr"], C._SyncGroupRequest(a["group"], a["generation"], a["member"], asg))
    if e == "heartbeat":
        return KafkaCodec.encode_heartbeat_request(a["client_id"], a["corr"], C._HeartbeatRequest(a["group"], a["generation"], a["member"]))
    if e == "leave_group":
        return KafkaCodec.encode_leave_group_request(a["client_id"], a["corr"], C._LeaveGroupRequest(a["group"], a["member"]))
    if e == "api_versions":
        return KafkaCodec.encode_api_versions_request(a["client_id"], a["corr"], C.ApiVersionRequest(KafkaCodec.API_VERSIONS_KEY, 0))
    if e == "subscription":
        return KafkaCodec.encode_join_group_protocol_metadata(a["version"], a["topics"], a["user_data"])
    if e == "assignment":
        return KafkaCodec.encode_sync_group_member_assignment(a["version"], dict((t, ps) for t, ps in a["assignment"]), a["user_data"])
    raise KeyError(e)


API_KEY = {"produce": 0, "fetch": 1, "offsets": 2, "metadata": 3, "offset_commit": 8, "offset_fetch": 9, "find_coordinator": 10,
           "join_group": 11, "heartbeat": 12, "leave_group": 13, "sync_group": 14, "api_versions": 18}
HDR_VERSION = {"offset_commit": 1, "offset_fetch": 1}


def _bytopic(parsed_topics):
    out = {}
    for t in parsed_topics:
        for p in t["partitions"]:
            out[(t["topic"], p["partition"])] = p
    return out


def _expected_records(a, p):
    """[(magic, attributes, key, value, timestamp)] expected on the wire for payload p, after unwrapping."""
    magic = 1 if a["version"] >= 2 else 0
    if a["mode"] == "explicit":
        return [(magic, attr, k, v, (ts if magic else None)) for (k, v, attr, ts) in p["msgs"]], None
    ts = int((a["now_ms"] / 1000.0) * 1000) if magic else None  # what int(time.time() * 1000) yields
    flat = [(magic, 0, k, v, ts) for k, vs in p["reqs"] for v in vs]
    return flat, (1 if a["mode"] == "cms-gzip" else None)


def check(ctx, a):
    """Encode, parse strictly, compare.  Returns (status, nontrivial)."""
    ctx.current = a
    dom = in_domain(a)
    e = a["enc"]
    try:
        raw = encode(a)
    except Exception as ex:  # noqa
        if dom:
            ctx.flag("C04.encodes-in-domain", "C04.encoder-raised/%s/%s" % (e, type(ex).__name__),
                     "encoder for %s raised %r on in-domain arguments" % (e, ex))
        return "rejected", False
    if not dom:
        return "accepted-out-of-domain", False
    if not isinstance(raw, bytes):
        ctx.flag("C04.bytes", "C04.not-bytes/" + e, "encoder returned %r" % type(raw))
    try:
        if e == "subscription":
            got = rp.parse_subscription(raw)
            want = {"version": a["version"], "topics": list(a["topics"]), "user_data": a["user_data"]}
            if got != want:
                ctx.flag("C04.fields", "C04.fields/subscription", "parsed %r, supplied %r" % (got, want))
            return "ok", bool(a["topics"])
        if e == "assignment":
            got = rp.parse_assignment(raw)
            want = {"version": 0, "assignment": [(t, list(ps)) for t, ps in a["assignment"]], "user_data": a["user_data"]}
            if dict(got["assignment"]) != dict(want["assignment"]) or len(got["assignment"]) != len(want["assignment"]) or got["version"] != 0 or got["user_data"] != want["user_data"]:
                ctx.flag("C04.fields", "C04.fields/assignment", "parsed %r, supplied %r" % (got, want))
            return "ok", any(ps for _, ps in a["assignment"])
        req = rp.parse_request(raw)
    except rp.GrammarError as ex:
        what = str(ex)
        kind = "trailing" if "trailing" in what else "crc" if "CRC" in what else "version" if "version" in what else "magic" if "magic" in what else "other"
        ctx.flag("C04.grammar", "C04.grammar/%s/%s" % (e, kind), "bytes for %s do not parse: %s" % (e, ex))
        return "ok", False

    def bad(field, got, want):
        ctx.flag("C04.fields", "C04.fields/%s/%s" % (e, field), "%s: parsed %s = %r, supplied %r" % (e, field, _abbr(got), _abbr(want)))

    if req["api_key"] != API_KEY[e]:
        bad("api_key", req["api_key"], API_KEY[e])
    if req["correlation_id"] != a["corr"]:
        bad("correlation_id", req["correlation_id"], a["corr"])
    if req["client_id"] != a["client_id"]:
        bad("client_id", req["client_id"], a["client_id"])
    want_ver = HDR_VERSION.get(e, 0)
    if e in ("produce", "fetch"):
        want_ver = min(a["version"], 2)
    if req["api_version"] != want_ver:
        bad("api_version", req["api_version"], want_ver)
    nt = False
    if e == "produce":
        if req["acks"] != a["acks"]:
            bad("acks", req["acks"], a["acks"])
        if req["timeout"] != a["timeout"]:
            bad("timeout", req["timeout"], a["timeout"])
        got = _bytopic(req["topics"])
        if set(got) != set((p["topic"], p["partition"]) for p in a["payloads"]):
            bad("topic-partitions", sorted(got), sorted((p["topic"], p["partition"]) for p in a["payloads"]))
        for p in a["payloads"]:
            recs = got[(p["topic"], p["partition"])]["records"]
            want, wrapper_codec = _expected_records(a, p)
            if wrapper_codec is not None:
                if len(recs) != 1 or recs[0]["inner"] is None or (recs[0]["attributes"] & 0x07) != wrapper_codec:
                    bad("compression-attributes", [(r["attributes"], r["inner"] is not None) for r in recs], "one wrapper with codec %d" % wrapper_codec)
                    continue
                if recs[0]["magic"] != (1 if a["version"] >= 2 else 0):
                    bad("wrapper-magic", recs[0]["magic"], 1 if a["version"] >= 2 else 0)
                seq = [(r["magic"], r["attributes"], r["key"], r["value"], r["timestamp"]) for r in recs[0]["inner"]]
            else:
                if any(r["inner"] is not None for r in recs) and a["mode"] != "explicit":
                    bad("compression-attributes", "wrapper", "plain messages")
                seq = [(r["magic"], r["attributes"], r["key"], r["value"], r["timestamp"]) for r in recs]
            if seq != want:
                bad("messages", seq, want)
            if want:
                nt = True
    elif e == "fetch":
        for f in ("max_wait", "min_bytes"):
            if req[f] != a[f]:
                bad(f, req[f], a[f])
        if req["replica_id"] != -1:
            bad("replica_id", req["replica_id"], -1)
        got = _bytopic(req["topics"])
        want = {(p["topic"], p["partition"]): {"partition": p["partition"], "offset": p["offset"], "max_bytes": p["max_bytes"]} for p in a["payloads"]}
        if got != want:
            bad("payloads", got, want)
        nt = bool(want)
    elif e == "offsets":
        if req["replica_id"] != -1:
            bad("replica_id", req["replica_id"], -1)
        got = _bytopic(req["topics"])
        want = {(p["topic"], p["partition"]): {"partition": p["partition"], "time": p["time"], "max_offsets": p["max"]} for p in a["payloads"]}
        if got != want:
            bad("payloads", got, want)
        nt = bool(want)
    elif e == "metadata":
        if req["topics"] != list(a["topics"] or []):
            bad("topics", req["topics"], a["topics"])
        nt = bool(a["topics"])
    elif e == "find_coordinator":
        if req["group"] != a["group"]:
            bad("group", req["group"], a["group"])
        nt = True
    elif e == "offset_commit":
        for f, g in (("group", "group"), ("generation", "generation"), ("member_id", "member")):
            if req[f] != a[g]:
                bad(f, req[f], a[g])
        got = _bytopic(req["topics"])
        want = {(p["topic"], p["partition"]): {"partition": p["partition"], "offset": p["offset"], "timestamp": p["timestamp"], "metadata": p["metadata"]} for p in a["payloads"]}
        if got != want:
            bad("payloads", got, want)
        nt = bool(want)
    elif e == "offset_fetch":
        if req["group"] != a["group"]:
            bad("group", req["group"], a["group"])
        got = _bytopic(req["topics"])
        want = {(p["topic"], p["partition"]): {"partition": p["partition"]} for p in a["payloads"]}
        if got != want:
            bad("payloads", got, want)
        nt = bool(want)
    elif e == "join_group":
        for f, g in (("group", "group"), ("session_timeout", "session_timeout"), ("member_id", "member"), ("protocol_type", "protocol_type")):
            if req[f] != a[g]:
                bad(f, req[f], a[g])
        want = [{"name": n, "metadata": m} for n, m in a["protocols"]]
        if req["protocols"] != want:
            bad("protocols", req["protocols"], want)
        nt = bool(want) or not _is_ascii(a["group"] + a["member"])
    elif e == "sync_group":
        for f, g in (("group", "group"), ("generation", "generation"), ("member_id", "member")):
            if req[f] != a[g]:
                bad(f, req[f], a[g])
        want = [{"member_id": m, "assignment": b} for m, b in a["assignments"]]
        if req["assignments"] != want:
            bad("assignments", req["assignments"], want)
        nt = bool(want) or not _is_ascii(a["group"] + a["member"])
    elif e == "heartbeat":
        for f, g in (("group", "group"), ("generation", "generation"), ("member_id", "member")):
            if req[f] != a[g]:
                bad(f, req[f], a[g])
        nt = True
    elif e == "leave_group":
        for f, g in (("group", "group"), ("member_id", "member")):
            if req[f] != a[g]:
                bad(f, req[f], a[g])
        nt = True
    elif e == "api_versions":
        nt = True
    return "ok", nt


def _abbr(x):
    s = repr(x)
    return s if len(s) < 600 else s[:600] + "...(%d chars)" % len(s)


def shard(ctx):
    per_q, per_t = 320, 6400
    for i, (name, strat) in enumerate(STRATS):
        def body(a, name=name):
            status, nt = check(ctx, a)
            if status == "rejected":
                ctx.rejected += 1
            ctx.case(key=a, nontrivial=(nt and status == "ok"), labels=["enc:" + name, "status:" + status], sample=a)

        hyp(ctx, strat(), body, ctx.n(per_q, per_t), offset=i)
    try:
        from checks import c04_negotiation
    except ImportError:
        return
    c04_negotiation.shard(ctx)


def replay(case, ctx):
    if isinstance(case, dict) and case.get("enc"):
        check(ctx, case)
        return
    from checks import c04_negotiation

    c04_negotiation.replay(case, ctx)


def selfcheck():
    rp.selfcheck()
