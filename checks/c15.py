"""C15 - group assignment gives every partition to exactly one subscribed member."""
import itertools

from hypothesis import strategies as st

from vlib import refproto as rp
from vlib.engines import grp as _grp
from vlib.engines.base import drive as _drive, run_trace as _run_trace
from vlib.runner import hyp

PROP = "C15"
TECHNIQUE = "property-based testing of the leader's assignment with validity predicates (exact cover, subscription, balance, permutation invariance, decode agreement with an independent parser) plus exhaustive small-scope enumeration"
RULE = (
    "random: 1..8 text member ids in a drawn order, subscription maps (identical / overlapping / disjoint / singleton, each "
    "member >= 1 topic), partition maps with 0..6 non-contiguous partition ids per topic; member metadata built by refproto; "
    "generate_assignments is run on the drawn order and on 3 further permutations, every member's blob is decoded by afkak's "
    "decode_assignment and by refproto. exhaustive small scope: every (members <= M, topics <= T, partitions per topic <= P, "
    "all subscription maps) with (M,T,P) = (3,2,2) quick / (4,3,3) thorough. oracle: exact cover of the subscribed topics' "
    "partitions, only-subscribed, sizes differ <= 1 when subscriptions are identical, same member->partitions map for every "
    "permutation, one blob per listed member, afkak decode == refproto decode. "
    "non-trivial = >= 2 members and >= 2 partitions in total, or unequal subscriptions; distinct = distinct input. "
    "leader path (engine GRP): traces in which the real Coordinator joins a simulated group with 0-3 ghost members whose subscriptions equal or "
    "contain its own; whenever it is elected leader, the assignments in the SyncGroup it writes are parsed independently and checked against the "
    "member list and subscriptions the coordinator model handed out and the cluster's partitions (same clauses), and a join won as leader must be "
    "followed by a SyncGroup or another attempt once faults cease; non-trivial there = a checked leader assignment with >= 2 members or generations."
    ' Partitions may be leaderless while the leader looks the partition lists up (op noleader): they are still assigned.'
)
ASSUMPTIONS = [
    "for the direct calls the partition map handed to generate_assignments covers every subscribed topic; obtaining it is the coordinator's job, exercised by the leader-path traces",
    "topic names are legal Kafka topic names (ASCII); member ids are arbitrary text",
]

_tc = "abcdefghijklmnopqrstuvwxyz0123456789._-"
TOPIC = st.text(_tc, min_size=1, max_size=6)
MEMBER = st.one_of(st.text(min_size=1, max_size=10), st.text("abcm-0123", min_size=1, max_size=6), st.uuids().map(lambda u: "afkak-" + str(u)))


@st.composite
def s_case(draw):
    topics = draw(st.lists(TOPIC, min_size=1, max_size=4, unique=True))
    members = draw(st.lists(MEMBER, min_size=1, max_size=8, unique=True))
    mode = draw(st.sampled_from(["identical", "identical", "mixed", "mixed", "disjoint"]))
    subs = {}
    for i, m in enumerate(members):
        if mode == "identical":
            subs[m] = list(topics)
        elif mode == "disjoint":
            subs[m] = [topics[i % len(topics)]]
        else:
            subs[m] = draw(st.lists(st.sampled_from(topics), min_size=1, max_size=len(topics), unique=True))
    parts = {t: sorted(draw(st.lists(st.integers(0, 40), max_size=6, unique=True))) for t in topics}
    perms = draw(st.lists(st.permutations(members), min_size=3, max_size=3))
    return {"members": members, "subs": [[m, subs[m]] for m in members], "parts": [[t, parts[t]] for t in topics], "perms": [list(p) for p in perms]}


def run_assign(order, subs, parts):
    """-> ({member: sorted [(topic, partition)] as decoded by afkak}, blobs {member: bytes}, listed member ids)"""
    from afkak._group import _ConsumerProtocol
    from afkak.common import _JoinGroupResponseMember

    proto = _ConsumerProtocol()
    members = [_JoinGroupResponseMember(m, rp.encode_subscription(subs[m], b"")) for m in order]
    out = proto.generate_assignments(members, dict((t, list(p)) for t, p in parts.items()))
    decoded = {}
    blobs = {}
    listed = []
    for a in out:
        listed.append(a.member_id)
        blobs[a.member_id] = a.member_metadata
        d = proto.decode_assignment(a.member_metadata)
        decoded[a.member_id] = sorted((t, p) for t, ps in d.items() for p in ps)
    return decoded, blobs, listed


def check(ctx, case):
    ctx.current = case
    subs = dict((m, list(ts)) for m, ts in case["subs"])
    parts = dict((t, list(ps)) for t, ps in case["parts"])
    order = list(case["members"])
    try:
        decoded, blobs, listed = run_assign(order, subs, parts)
    except Exception as ex:  # noqa
        ctx.flag("C15.assigns", "C15.raised/%s" % type(ex).__name__, "generate_assignments/decode raised %r" % ex)
        return False
    if sorted(listed) != sorted(order):
        ctx.flag("C15.blob-per-member", "C15.blob-per-member", "blobs for %r, members listed %r" % (listed, order))
    subscribed = set(t for ts in subs.values() for t in ts)
    want = sorted((t, p) for t in subscribed for p in parts[t])
    got = sorted(tp for m in decoded for tp in decoded[m])
    if got != want:
        missing = sorted(set(want) - set(got))
        dup = sorted(tp for tp in set(got) if got.count(tp) > 1)
        extra = sorted(set(got) - set(want))
        kind = "missing" if missing else "duplicate" if dup else "extra"
        ctx.flag("C15.exact-cover", "C15.exact-cover/" + kind, "assigned %r, partitions of subscribed topics %r (missing %r, duplicated %r, extra %r)" % (got, want, missing, dup, extra))
    for m, tps in decoded.items():
        for t, p in tps:
            if t not in subs.get(m, []):
                ctx.flag("C15.only-subscribed", "C15.only-subscribed", "member %r holds %r but subscribes to %r" % (m, (t, p), subs.get(m)))
    if len(set(tuple(sorted(ts)) for ts in subs.values())) == 1:
        sizes = [len(decoded.get(m, [])) for m in order]
        if max(sizes) - min(sizes) > 1:
            ctx.flag("C15.balanced", "C15.balanced", "identical subscriptions but sizes %r (assignment %r)" % (sizes, decoded))
    for m, blob in blobs.items():
        try:
            ref = rp.parse_assignment(blob)
        except rp.GrammarError as ex:
            ctx.flag("C15.decode-agrees", "C15.blob-grammar", "assignment blob of %r does not parse: %s" % (m, ex))
            continue
        reft = sorted((t, p) for t, ps in ref["assignment"] for p in ps)
        if reft != decoded[m] or ref["version"] != 0:
            ctx.flag("C15.decode-agrees", "C15.decode-agrees", "member %r: afkak decodes %r, independent parser %r" % (m, decoded[m], reft))
    for perm in case.get("perms", []):
        try:
            d2, _, _ = run_assign(list(perm), subs, parts)
        except Exception as ex:  # noqa
            ctx.flag("C15.assigns", "C15.raised/%s" % type(ex).__name__, "generate_assignments raised %r for order %r" % (ex, perm))
            continue
        if d2 != decoded:
            ctx.flag("C15.order-independent", "C15.order-independent", "order %r -> %r but order %r -> %r" % (order, decoded, perm, d2))
    total = len(want)
    unequal = len(set(tuple(sorted(ts)) for ts in subs.values())) > 1
    return (len(order) >= 2 and total >= 2) or unequal


def scope(M, T, P):
    topics_all = ["ta", "tb", "tc"][:T]
    for nt in range(1, T + 1):
        topics = topics_all[:nt]
        subsets = [list(c) for r in range(1, nt + 1) for c in itertools.combinations(topics, r)]
        for counts in itertools.product(range(0, P + 1), repeat=nt):
            parts = [[t, [i * 2 + 1 for i in range(c)]] for t, c in zip(topics, counts)]
            for nm in range(1, M + 1):
                members = ["m-b", "m-a", "m-c", "n"][:nm]
                for choice in itertools.product(subsets, repeat=nm):
                    yield {"members": members, "subs": [[m, s] for m, s in zip(members, choice)], "parts": parts,
                           "perms": [list(reversed(members)), sorted(members)]}


class LeaderEng(_grp.GRPEngine):
    """the leader path end to end: the real Coordinator elected leader by the coordinator model, ghosts with equal or wider subscriptions"""
    MACROS = ["stable", "rebalance", "rebalance", "leave", "joinfault", "lookupfault"]
    MACRO_ONE_IN = 2

    def nontrivial(self):
        return "leader-assignment-checked" in self.nt and len(self.g.members) + len(self.eras) >= 2


def shard(ctx):
    _drive(ctx, LeaderEng, ctx.n(16 * 60, 16 * 1500), min_steps=6, max_steps=50, offset=2, props={"C15"})

    def body(case):
        nt = check(ctx, case)
        subs = [tuple(sorted(s)) for _, s in case["subs"]]
        labels = ["random", "members=%d" % min(len(case["members"]), 5)]
        labels.append("subs-identical" if len(set(subs)) == 1 else "subs-unequal")
        ctx.case(key=case, nontrivial=nt, labels=labels, sample=case)

    hyp(ctx, s_case(), body, ctx.n(3000, 60000))
    M, T, P = (3, 2, 2) if ctx.tier == "quick" else (4, 3, 3)
    n = nt = 0
    for i, case in enumerate(scope(M, T, P)):
        if i % ctx.nshards != ctx.shard:
            continue
        if check(ctx, case):
            nt += 1
        n += 1
    ctx.evaluations += n
    ctx.labels["exhaustive-scope"] += n
    ctx.extra["nt_extra"] = nt
    ctx.extra["exhaustive_scope_cases"] = n


EXHAUSTIVE = {"quick": "all inputs with <=3 members, <=2 topics, <=2 partitions/topic, all subscription maps", "thorough": "all inputs with <=4 members, <=3 topics, <=3 partitions/topic, all subscription maps"}


def replay(case, ctx):
    if isinstance(case, dict) and case.get("engine") == "GRP":
        _run_trace(LeaderEng, case, ctx, props={"C15"})
        return
    check(ctx, case)


def selfcheck():
    rp.selfcheck()
