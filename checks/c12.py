"""C12 - corrupted or truncated message data is never delivered as a message."""
import glob
import json
import os
import re
import shutil
import subprocess
import sys

from hypothesis import strategies as st

from checks import c05
from vlib import decwork, msgsets
from vlib import refproto as rp
from vlib.engines import cons as _cons
from vlib.engines.base import drive as _drive, run_trace as _run_trace
from vlib.runner import HOME, REPO, hyp

PROP = "C12"
TECHNIQUE = "property-based testing with exhaustive bit-flip / truncation enumeration per generated message set; Hypothesis mutator over valid responses; coverage-guided fuzzing (atheris/libFuzzer) of every decoder with an in-target work-budget oracle"
RULE = (
    "(a) message sets generated as in C05; for every top-level message every bit of its checksummed region is flipped singly "
    "(exhaustive) plus drawn bursts of 2..32 bits with both end bits set, and the same inside gzip wrappers (inner message "
    "altered, wrapper re-compressed with a valid outer CRC): iterating decode_fetch_response(...).messages must raise "
    "ChecksumError after yielding only an unaltered prefix. (b) every cut point c of the serialised set (exhaustive): exactly "
    "the records of the entries wholly inside [0,c); nothing for c=0; ConsumerFetchSizeTooSmall for 0<c<first entry. "
    "(c) arbitrary bytes into all 17 decoders (results fully consumed incl. nested message iterators): Hypothesis mutator over "
    "valid refproto responses (hostile count/length fields -2,-1,0,2^31-1,-2^31,'more than remains'; splice; truncate; flip) and "
    "atheris on raw bytes; the decoder must return or raise an Exception within lines <= 4000 + 60*(len+decompressed) "
    "(sys.monitoring LINE events inside afkak/) and tracemalloc peak <= 256KiB + 64*(len+decompressed). "
    "non-trivial = (a) a mutation inside a wrapper or a magic-1 message, or a burst > 1 bit; (b) a cut strictly inside a "
    "non-first entry; (c) an input on which the decoder executed >= 10 lines (got past its first length check); distinct = "
    "distinct (set, mutation) / input. (e) enumerated on valid responses: each plausible count field := 250000 combined with each plausible length field := a small negative value (-2..-40); same budget. (d) end to end: engine CONS traces (real Consumer + KafkaClient + codec on the simulated "
    "cluster, buffers 64 B..1 MiB+1, optional maximum, messages of 400 B..4 MiB appended while consuming): after a fetch answer "
    "that holds only part of a message and arrived in time, the next fetch of that run asks for the same offset with a larger "
    "buffer, and the run does not fail with ConsumerFetchSizeTooSmall while the maximum is not reached; non-trivial = the buffer "
    "grew or sat at its maximum; distinct = distinct trace."
    ' A third deterministic cost measure counts the bytes a decoder copies by slicing its input (bytes subclass whose slices count themselves): at most 2048 + 8*(len + decompressed), inputs of 64 bytes and more; the hostile count x negative-length enumeration covers every response kind at every seed.'
)
ASSUMPTIONS = [
    "CRC-32 detects every single-bit error and every burst of <= 32 bits, so any yielded altered content is a violation",
    "work is counted in executed source lines of afkak/ (deterministic), not wall-clock; decompression output is charged to "
    "the budget so a gzip bomb is not reported as a length-field problem",
    "budget constants were calibrated on valid inputs (max observed ratio ~6 lines/byte) with a 10x margin",
    "atheris campaigns are only approximately reproducible from -seed; the saved crashing input is the reproducible unit",
]


def _spans(entries):
    """[(start, end, crc_region_start)] of each top-level entry in encode_message_set(entries)."""
    out = []
    pos = 0
    for e in entries:
        raw = rp.encode_message_set([e])
        out.append((pos, pos + len(raw), pos + 12 + 4))
        pos += len(raw)
    return out


def _decode(raw, version=0):
    """-> (yielded [(offset, Message)], exception or None) through the public route."""
    from afkak.kafkacodec import KafkaCodec

    resp = rp.r_fetch(1, [("t", [(0, 0, 0, raw)])], version=version)
    out = []
    try:
        for r in KafkaCodec.decode_fetch_response(resp, api_version=version):
            for m in r.messages:
                out.append(m)
    except Exception as ex:  # noqa
        return out, ex
    return out, None


def _as_tuples(msgs):
    return [(m.offset, m.message.magic, m.message.attributes, m.message.key, m.message.value, m.message.timestamp) for m in msgs]


def _burst(raw, bitpos, nbits, pattern):
    b = bytearray(raw)
    for i in range(nbits):
        on = (i == 0 or i == nbits - 1 or (pattern >> i) & 1)
        if on:
            p = bitpos + i
            b[p // 8] ^= 0x80 >> (p % 8)
    return bytes(b)


def check_set(ctx, case):
    """case: {"kind": "set", "entries": [...], "bursts": [(entry idx, rel bit, nbits, pattern)], "inner": [(entry idx, inner idx, rel bit)]}"""
    from afkak.common import ChecksumError, ConsumerFetchSizeTooSmall

    ctx.current = case
    entries = case["entries"]
    raw = rp.encode_message_set(entries)
    spans = _spans(entries)
    flat_by_entry = [rp.flatten([e]) for e in entries]
    full = [x for f in flat_by_entry for x in f]
    stats = {"flips": 0, "bursts": 0, "inner": 0, "cuts": 0, "nt": 0}

    def expect_checksum(mut, k, lo_prefix, hi_prefix, what):
        got, ex = _decode(mut)
        gt = _as_tuples(got)
        if not isinstance(ex, ChecksumError):
            ctx.flag("C12.checksum", "C12.checksum/not-detected/%s" % what,
                     "%s in entry %d: decoder %s and yielded %d records (%d precede the altered message)" %
                     (what, k, "raised %r" % ex if ex else "raised nothing", len(gt), lo_prefix))
            return
        if not (lo_prefix <= len(gt) <= hi_prefix) or gt != full[: len(gt)]:
            ctx.flag("C12.checksum", "C12.checksum/altered-prefix/%s" % what,
                     "%s in entry %d: yielded %r before ChecksumError, expected a prefix of length %d..%d of %r" % (what, k, gt, lo_prefix, hi_prefix, full[:hi_prefix]))

    # (a) single-bit flips, exhaustive over every checksummed bit of every top-level message
    nbefore = 0
    for k, (s, e, cs) in enumerate(spans):
        special = entries[k].get("inner") is not None or entries[k]["magic"] == 1
        if e - cs <= 260:
            for bit in range(cs * 8, e * 8):
                b = bytearray(raw)
                b[bit // 8] ^= 0x80 >> (bit % 8)
                expect_checksum(bytes(b), k, nbefore, nbefore, "single-bit")
                stats["flips"] += 1
                if special:
                    stats["nt"] += 1
        nbefore += len(flat_by_entry[k])
    # bursts
    for (k, rel, nbits, pattern) in case.get("bursts", []):
        if not spans:
            break
        k %= len(spans)
        s, e, cs = spans[k]
        total = (e - cs) * 8
        nbits = max(2, min(nbits, 32, total))
        start = cs * 8 + rel % (total - nbits + 1)
        nb = sum(len(f) for f in flat_by_entry[:k])
        expect_checksum(_burst(raw, start, nbits, pattern), k, nb, nb, "burst")
        stats["bursts"] += 1
        stats["nt"] += 1
    # alterations inside a wrapper: inner message corrupted, wrapper re-compressed with a valid CRC
    for (k, j, rel) in case.get("inner", []):
        wrappers = [i for i, en in enumerate(entries) if en.get("inner") is not None]
        if not wrappers:
            break
        k = wrappers[k % len(wrappers)]
        w = entries[k]
        ispans = _spans(w["inner"])
        iraw = rp.encode_message_set(w["inner"])
        j %= len(ispans)
        s, e, cs = ispans[j]
        bit = cs * 8 + rel % ((e - cs) * 8)
        b = bytearray(iraw)
        b[bit // 8] ^= 0x80 >> (bit % 8)
        wmsg = rp.encode_message(w["magic"], w["attributes"], None, rp.gzip_compress(bytes(b)), w.get("timestamp"))
        mut = rp.encode_message_set(entries[:k]) + rp.encode_entry(w["offset"], wmsg) + rp.encode_message_set(entries[k + 1:])
        nb = sum(len(f) for f in flat_by_entry[:k])
        inner_before = len(rp.flatten(w["inner"][:j]))
        expect_checksum(mut, k, nb, nb + inner_before, "inside-wrapper")
        stats["inner"] += 1
        stats["nt"] += 1
    # (b) every truncation point
    for c in range(0, len(raw) + 1):
        got, ex = _decode(raw[:c])
        gt = _as_tuples(got)
        whole = [k for k, (s, e, cs) in enumerate(spans) if e <= c]
        want = [x for k in whole for x in flat_by_entry[k]]
        stats["cuts"] += 1
        if whole and c > spans[len(whole) - 1][1] and len(whole) >= 1 and c < len(raw):
            stats["nt"] += 1
        if c == 0:
            if ex is not None or gt:
                ctx.flag("C12.truncation", "C12.truncation/empty", "empty set: yielded %r, raised %r" % (gt, ex))
        elif not whole:
            if not isinstance(ex, ConsumerFetchSizeTooSmall) or gt:
                ctx.flag("C12.truncation", "C12.truncation/too-small-signal", "cut at %d inside the first entry (%d bytes): yielded %r, raised %r" % (c, spans[0][1], gt, ex))
        else:
            if ex is not None:
                ctx.flag("C12.truncation", "C12.truncation/raised/%s" % type(ex).__name__, "cut at %d of %d: raised %r after yielding %d records; expected the %d complete records" % (c, len(raw), ex, len(gt), len(want)))
            elif gt != want:
                ctx.flag("C12.truncation", "C12.truncation/wrong-records", "cut at %d of %d: yielded %r, expected exactly %r" % (c, len(raw), gt, want))
    return stats


_small_set = msgsets.message_set(max_entries=4, allow_nested=False)
_set_case = st.fixed_dictionaries(
    {
        "kind": st.just("set"),
        "entries": _small_set,
        "bursts": st.lists(st.tuples(st.integers(0, 3), st.integers(0, 4000), st.integers(2, 32), st.integers(0, 2 ** 32 - 1)), min_size=2, max_size=6),
        "inner": st.lists(st.tuples(st.integers(0, 3), st.integers(0, 5), st.integers(0, 4000)), min_size=1, max_size=4),
    }
)

# ---------------------------------------------------------------------------
# (c) mutated valid responses

_H32 = [-2, -1, 0, 2 ** 31 - 1, -(2 ** 31), 65536, 10 ** 6, 1, 2, 1024, 1025]
_H16 = [-2, -1, 0, 32767, -32768, 1, 255]
_mut = st.one_of(
    st.tuples(st.just("i32"), st.integers(0, 10 ** 6), st.sampled_from(_H32)),
    st.tuples(st.just("i32"), st.integers(0, 40), st.sampled_from(_H32)),
    st.tuples(st.just("i16"), st.integers(0, 10 ** 6), st.sampled_from(_H16)),
    st.tuples(st.just("i16"), st.integers(0, 40), st.sampled_from(_H16)),
    st.tuples(st.just("rem"), st.integers(0, 10 ** 6), st.integers(0, 3)),
    st.tuples(st.just("trunc"), st.integers(0, 10 ** 6), st.just(0)),
    st.tuples(st.just("flip"), st.integers(0, 10 ** 6), st.integers(0, 7)),
    st.tuples(st.just("splice"), st.integers(0, 10 ** 6), st.integers(0, 10 ** 6)),
    st.tuples(st.just("ins"), st.integers(0, 10 ** 6), st.integers(0, 2 ** 32 - 1)),
)
_mut_case = st.fixed_dictionaries(
    {"kind": st.just("mut"), "base": c05.VALID_RESPONSE, "muts": st.lists(_mut, min_size=1, max_size=3), "cross": st.one_of(st.none(), st.none(), st.integers(0, 16))}
)
_DEC_INDEX = None


def _dec_index(name):
    global _DEC_INDEX
    if _DEC_INDEX is None:
        _DEC_INDEX = {n: i for i, (n, _) in enumerate(decwork.decoders())}
    return _DEC_INDEX[name]


def mutate(raw, muts):
    import struct

    b = bytearray(raw)
    for kind, pos, val in muts:
        n = len(b)
        if kind == "i32" and n >= 4:
            p = pos % (n - 3)
            b[p : p + 4] = struct.pack(">i", val)
        elif kind == "i16" and n >= 2:
            p = pos % (n - 1)
            b[p : p + 2] = struct.pack(">h", val)
        elif kind == "rem" and n >= 4:
            p = pos % (n - 3)
            b[p : p + 4] = struct.pack(">i", max(0, n - p - 4) + 1 + val)  # "more than remains"
        elif kind == "trunc" and n:
            del b[pos % n :]
        elif kind == "flip" and n:
            b[pos % n] ^= 1 << val
        elif kind == "splice" and n:
            a, c = sorted((pos % n, val % n))
            b[a:a] = b[a:c]
        elif kind == "ins":
            p = pos % (n + 1)
            b[p:p] = struct.pack(">I", val)
    return bytes(b)


def check_bytes(ctx, sel, data, measure_memory=True):
    ctx.current = {"kind": "bytes", "sel": sel, "data": data}
    r = decwork.run(sel, data, measure_memory=measure_memory)
    if r["status"] == "work":
        ctx.flag("C12.proportional-time", "C12.work-budget/%s" % r["decoder"],
                 "decoder %s executed > %d afkak source lines on a %d-byte input (budget 4000+60*(len+decompressed))" % (r["decoder"], r["limit"], len(data)))
    elif r["status"] == "memory":
        ctx.flag("C12.proportional-memory", "C12.memory-budget/%s" % r["decoder"],
                 "decoder %s peaked at %d bytes on a %d-byte input" % (r["decoder"], r["peak"], len(data)))
    elif len(data) >= 64:
        # ... and the bytes it copies while slicing its input are proportional to it as well (executed lines do not see a slice's length)
        n, dec, out = decwork.copied(sel, data)
        want = "value" if r["status"] == "value" else r["exc"]
        if out != want:
            ctx.extra["copy_measure_outcome_differs"] = ctx.extra.get("copy_measure_outcome_differs", 0) + 1  # a bytes subclass changed the outcome: no verdict from this measure
        elif n > decwork.E_COPY + decwork.F_COPY * (len(data) + dec):
            ctx.flag("C12.proportional-time", "C12.copy-budget/%s" % r["decoder"],
                     "decoder %s copied %d bytes while slicing a %d-byte input (+%d decompressed): budget %d+%d*(len+decompressed)" % (r["decoder"], n, len(data), dec, decwork.E_COPY, decwork.F_COPY))
        elif len(data) + dec >= 1024:
            mx = ctx.extra.setdefault("max_copied_per_input_byte", 0.0)
            ratio = round(n / float(len(data) + dec), 2)
            if ratio > mx:
                ctx.extra["max_copied_per_input_byte"] = ratio
    return r


_NEG = list(range(-2, -41, -1))


def hostile_pairs(ctx, sel, raw, max_decodes=2400):
    """(e) enumerated, structure-aware: every plausible count field of a valid response set to a huge value, combined with every
    plausible length field set to a small negative one (a length that walks the cursor backwards makes a count-controlled loop
    consume nothing) - the decoder must still stop within the budget of a short input."""
    import struct

    n = len(raw)
    c32 = [p for p in range(0, n - 3) if 0 <= struct.unpack(">i", raw[p:p + 4])[0] <= n - p - 4]
    c16 = [p for p in range(0, n - 1) if 0 <= struct.unpack(">h", raw[p:p + 2])[0] <= n - p - 2]
    # prefer fields that really look like a non-zero length/count; keep the enumeration bounded
    c32.sort(key=lambda p: (struct.unpack(">i", raw[p:p + 4])[0] == 0, p))
    c16.sort(key=lambda p: (struct.unpack(">h", raw[p:p + 2])[0] == 0, p))
    counts = c32[:3]
    lens = [("i", p) for p in c32[:7]] + [("h", p) for p in c16[:5]]
    done = 0
    for q in counts:
        for kind, p in lens:
            if (kind == "i" and abs(p - q) < 4) or (kind == "h" and -2 < p - q < 4):
                continue
            for v in _NEG:
                if done >= max_decodes:
                    return done
                b = bytearray(raw)
                b[q:q + 4] = struct.pack(">i", 250000)
                if kind == "i":
                    b[p:p + 4] = struct.pack(">i", v)
                else:
                    b[p:p + 2] = struct.pack(">h", v)
                check_bytes(ctx, sel, bytes(b), measure_memory=False)
                done += 1
    return done


def _atheris(ctx, runs, max_len):
    wd = os.path.join(os.environ.get("VERIF_OUT", HOME), ".work", "c12", "shard%d" % ctx.shard)  # per output directory: two runs of this check may be under way at once
    shutil.rmtree(wd, ignore_errors=True)
    corpus = os.path.join(wd, "corpus")
    os.makedirs(corpus)
    # seed corpus: shard parity decides empty corpus vs. small valid inputs (both regimes are run)
    if ctx.shard % 2 == 0:
        n = [0]

        def dump(a):
            name, raw = c05.raw_of(a)
            with open(os.path.join(corpus, "seed%03d" % n[0]), "wb") as f:
                f.write(bytes([_dec_index(name)]) + raw)
            n[0] += 1

        hyp(ctx, c05.VALID_RESPONSE, dump, 60, shrink=False, offset=900)
    stats = os.path.join(wd, "stats.json")
    env = dict(os.environ)
    env["PYTHONPATH"] = os.pathsep.join([REPO, HOME, os.path.join(HOME, ".deps")])
    cmd = [sys.executable, "-B", "-W", "ignore", os.path.join(HOME, "fuzz", "decoders.py"), stats, "-runs=%d" % runs, "-seed=%d" % (ctx.hseed(7) or 1),
           "-max_len=%d" % max_len, "-artifact_prefix=%s/" % wd, "-print_final_stats=1", "-timeout=120", corpus]
    try:
        # started through a small intermediate shell that forks: libFuzzer reads the process's peak RSS (ru_maxrss), which a
        # fork+exec child inherits from a large parent - the shard process - and would report "out-of-memory" at once
        import shlex

        cmd = ["/bin/sh", "-c", shlex.join(cmd) + "; exit $?"]
        p = subprocess.run(cmd, env=env, stdout=subprocess.PIPE, stderr=subprocess.STDOUT, timeout=3600)
        out = p.stdout.decode("utf-8", "replace")
    except subprocess.TimeoutExpired:
        ctx.inconclusive += 1
        return
    if "No module named 'atheris'" in out or "ModuleNotFoundError" in out:
        ctx.extra["atheris"] = "unavailable: " + out.strip().splitlines()[-1][:200]
        return
    try:
        s = json.load(open(stats))
    except Exception:  # noqa
        s = {"runs": 0, "nontrivial": 0, "samples": [], "by_status": {}}
    m = re.search(r"stat::number_of_executed_units:\s*(\d+)", out)
    execs = int(m.group(1)) if m else s["runs"]
    ctx.evaluations += execs
    ctx.labels["atheris-exec"] += execs
    ctx.extra["nt_extra"] = ctx.extra.get("nt_extra", 0) + s["nontrivial"]
    ctx.extra["atheris_execs"] = execs
    ctx.extra["atheris_corpus"] = "valid-seeds" if ctx.shard % 2 == 0 else "empty"
    for smp in s.get("samples", [])[:1]:
        if len(ctx.nt_samples) < 4:
            ctx.nt_samples.append({"atheris_input": smp})
    crashes = sorted(glob.glob(os.path.join(wd, "crash-*")) + glob.glob(os.path.join(wd, "timeout-*")))
    for c in crashes[:1]:
        data = open(c, "rb").read()
        if data:
            check_bytes(ctx, data[0], data[1:], measure_memory=False)
            # reached only if the saved input does not reproduce under the plain harness
            ctx.extra["atheris_unreproduced_artifacts"] = ctx.extra.get("atheris_unreproduced_artifacts", 0) + 1
    if p.returncode != 0 and not crashes:
        raise RuntimeError("atheris target failed:\n" + out[-3000:])


class BufEng(_cons.CONSEngine):
    """clause 'the consumer then enlarges its buffer rather than skipping', end to end through the real Consumer + client + codec"""
    MACROS = ["bigmsg", "bigmsg", "bigmsg", "steady"]
    MACRO_ONE_IN = 2

    def nontrivial(self):
        return "buffer-growth" in self.nt or "buffer-at-maximum" in self.nt


def shard(ctx):
    # (d) first (before the line counter is installed: it would slow the engine down)
    _drive(ctx, BufEng, ctx.n(16 * 60, 16 * 1500), min_steps=6, max_steps=40, offset=3, props={"C12"})
    decwork.install()

    def body(case):
        s = check_set(ctx, case)
        n = s["flips"] + s["bursts"] + s["inner"] + s["cuts"]
        feats = msgsets.features(case["entries"])
        ctx.evaluations += n - 1
        ctx.extra["nt_extra"] = ctx.extra.get("nt_extra", 0) + max(s["nt"] - 1, 0)
        for k in ("flips", "bursts", "inner", "cuts"):
            ctx.labels["set-" + k] += s[k]
        ctx.case(key=case, nontrivial=s["nt"] > 0, labels=["set"] + sorted(feats),
                 sample={"entries": case["entries"], "mutations_checked": s})

    hyp(ctx, _set_case, body, ctx.n(160, 3200))

    def mbody(case):
        name, raw = c05.raw_of(case["base"])
        sel = _dec_index(name) if case["cross"] is None else case["cross"]
        data = mutate(raw, case["muts"])
        r = check_bytes(ctx, sel, data, measure_memory=(ctx.evaluations % 4 == 0))
        ctx.case(key=[sel, data], nontrivial=r["work"] >= 10, labels=["mut", "mut:" + r["status"]] + (["mut-cross-decoder"] if case["cross"] is not None else []),
                 sample={"decoder": r["decoder"], "input": data, "mutations": case["muts"], "status": r["status"], "exc": r["exc"], "work_lines": r["work"]})

    hyp(ctx, _mut_case, mbody, ctx.n(4000, 120000), offset=1)

    # (e) hostile count x negative-length pairs, enumerated on a few valid responses per shard
    def pbody(a):
        name, raw = c05.raw_of(a)
        if len(raw) > 600:
            return
        k = hostile_pairs(ctx, _dec_index(name), raw)
        ctx.evaluations += max(k - 1, 0)
        ctx.labels["hostile-count-x-negative-length"] += k
        ctx.case(key=["pairs", name, raw], nontrivial=k > 0, labels=["pairs"], sample={"decoder": name, "base_len": len(raw), "combinations": k})

    # every response kind gets its share whatever the seed: shard i enumerates on responses of kind i (mod the number of kinds)
    kinds = [s for n, s in c05.STRATS if n != "roundtrip"]
    hyp(ctx, kinds[ctx.shard % len(kinds)](), pbody, ctx.n(16 * 6, 16 * 120), shrink=False, offset=5)
    if ctx.nshards < len(kinds):
        for extra in range(ctx.shard + ctx.nshards, len(kinds), ctx.nshards):
            hyp(ctx, kinds[extra](), pbody, ctx.n(16 * 6, 16 * 120), shrink=False, offset=5 + extra)

    nfuzz = 4 if ctx.tier == "quick" else 16
    if ctx.shard < nfuzz:
        _atheris(ctx, 40000 if ctx.tier == "quick" else 1500000, 600)


def replay(case, ctx):
    if isinstance(case, dict) and case.get("engine") == "CONS":
        _run_trace(BufEng, case, ctx, props={"C12"})
        return
    decwork.install()
    if case["kind"] == "set":
        check_set(ctx, case)
    elif case["kind"] == "mut":
        name, raw = c05.raw_of(case["base"])
        sel = _dec_index(name) if case["cross"] is None else case["cross"]
        check_bytes(ctx, sel, mutate(raw, case["muts"]))
    else:
        check_bytes(ctx, case["sel"], case["data"])


def selfcheck():
    rp.selfcheck()
