"""C17 (engine GRP) - see RULE."""
from vlib.engines import grp
from vlib.engines.base import drive, run_trace

PROP = "C17"
NT = set("stable-again-after-faults-at-two-steps,non-kafka-error-surfaced,rejoin-after-fatal-backoff,rejoin-after-retry-backoff,stable-again-after-faults".split(","))


class Eng(grp.GRPEngine):
    MACROS = ["stable", "rebalance", "evict", "commitreject", "joinfault", "joinfault", "syncfault", "syncfault", "coordfault", "coordfault", "netfault", "netfault", "procfail", "lookupfault", "lookupfault", "overlap"]
    MACRO_ONE_IN = 3

    def nontrivial(self):
        return bool(self.nt & NT) or bool(NT & self.labels)


def shard(ctx):
    drive(ctx, Eng, ctx.n(16 * 250, 16 * 4000), min_steps=6, max_steps=80, props={"C17"})


def replay(case, ctx):
    run_trace(Eng, case, ctx, props={"C17"})


TECHNIQUE = "stateful property-based testing of the real ConsumerGroup (Coordinator + partition Consumers) + KafkaClient + codec on a simulated cluster with a group-coordinator model (vlib/simgroup.py, written from Kafka's documented state machine) and harness-driven ghost members; Hypothesis draws rebalance histories, reply/timer orders, error codes on any group request, held replies, connection and broker faults, processor behaviour and stop points; ddmin-shrunk JSON traces"
RULE = (
    "traces over one ConsumerGroup member (1-2 topics x 1-3 partitions, session 6/30 s, heartbeat 1/2 s, backoffs 0.3-1 / 0.1 / 1.5-10 s, auto-commit every n / ms) on a 1-2 broker simulated cluster whose group coordinator is a model of Kafka's Empty/PreparingRebalance/AwaitingSync/Stable machine with session and rebalance timers; 0-3 ghost members join, leave, die (session expiry) or stall their rejoin, a ghost leader deals assignments with a drawn rotation so partitions move; steps: start, deliver/hold a reply, fire a timer, wait, append, complete an async processor call, error codes on join/sync/heartbeat/commit/lookup/offset-fetch/fetch, held replies, connection drops, brokers down/up, coordinator and leader moves, stop. oracle: (never idle) after every event, a started, unstopped member whose start() Deferred has not fired has something outstanding - a pending simulated event, a request or connection attempt, or a delayed call - otherwise it is wedged; (backoff) after a group request fails with a Kafka error the public join_and_sync() runs no later than the documented backoff for that error class (retry / fatal; an earlier longer backoff still running is honoured); (bounded liveness) after all faults are lifted the member is, within 3 x (join timeout + fatal backoff + session timeout) + 20 virtual seconds, a stable member of the model's current generation with an acknowledged heartbeat in it, and a message then appended to each of its partitions reaches the processor; (non-Kafka error) a ValueError raised by the processor while the member is stable makes the start() Deferred fail with that error. non-trivial = stable again after faults at two or more protocol steps, a measured rejoin after a retry-class or fatal-class failure, or a surfaced non-Kafka error; distinct = distinct trace."
    " Also: a silent JoinGroup/SyncGroup/Heartbeat must be noticed (time out by write time + timeout / 35 s), and clause (3) also applies to a processor failure while consumers are being shut down for a rejoin as long as that consumer's start Deferred has not fired."
    ' A topic may be in a transient metadata error state (op mderr, script lookupfault) while the member - as leader - looks up the partitions of every subscribed topic between JoinGroup and SyncGroup; the error is lifted with the other faults before the liveness verdict.'
    " The Deferred of start() failing with a KafkaError although stop() was not called and the processor did not fail is a violation (every Kafka error leads to a rejoin); scripts 'lookupfault' and 'overlap' are part of the mix."
)
ASSUMPTIONS = ['vlib/simgroup.py models a 0.10-era GroupCoordinator (JoinGroup/SyncGroup/Heartbeat/LeaveGroup v0, OffsetCommit v1 generation check); it is self-checked against a ghost-only rebalance script before use', 'group call outcomes are observed by a pass-through callback on the Deferred KafkaClient._send_request_to_coordinator / send_offset_commit_request return to the coordinator code; scheduled rejoins by wrapping the public join_and_sync() on the instance', 'what evicted consumers do between the evicting answer and the next JoinGroup is reported as a statistic only: the property demands they are stopped before any rejoin']
