"""C11 (engine CL) - see RULE."""
from vlib.engines import bc as _bc
from vlib.engines import cl
from vlib.engines import grp as _grp
from vlib.engines.base import drive, run_trace

PROP = "C11"
NT = set("timed-out-request".split(","))


class Eng(cl.CLEngine):
    MACROS = ["warmup", "timeout", "timeout", "timeout2", "timeout2", "partial", "notleader", "noconn", "noconn"]
    MACRO_ONE_IN = 8

    def nontrivial(self):
        return bool(self.nt & NT) or bool(NT & self.labels)


class GrpEng(_grp.GRPEngine):
    """'the stated longer minimum for group joins': JoinGroup/SyncGroup/Heartbeat requests of the real Coordinator against silent or late coordinators"""
    MACROS = ["netfault", "netfault", "netfault", "joinfault", "rebalance", "stable"]
    MACRO_ONE_IN = 2

    def nontrivial(self):
        return "group-request-timed-out" in self.nt


class BcEng(_bc.BCEngine):
    """'a reply that arrives after the timeout is discarded without disturbing any other request' at the broker connection: the owner
    cancels a request at its timeout; its id may be used again (the api-versions retry does) before the late reply arrives"""

    def nontrivial(self):
        return "late-reply-to-cancelled" in self.nt


def shard(ctx):
    drive(ctx, BcEng, ctx.n(16 * 60, 16 * 1500), min_steps=6, max_steps=40, offset=7, props={"C11"})
    drive(ctx, GrpEng, ctx.n(16 * 60, 16 * 1500), min_steps=6, max_steps=50, offset=6, props={"C11"})
    drive(ctx, Eng, ctx.n(16 * 250, 16 * 6000), min_steps=8, max_steps=70, props={"C11"})


def replay(case, ctx):
    if isinstance(case, dict) and case.get("engine") == "BC":
        run_trace(BcEng, case, ctx, props={"C11"})
        return
    if isinstance(case, dict) and case.get("engine") == "GRP":
        run_trace(GrpEng, case, ctx, props={"C11"})
        return
    run_trace(Eng, case, ctx, props={"C11"})

TECHNIQUE = "stateful property-based testing with a virtual clock owned by the harness: per-request broker behaviour (prompt / late / never) is drawn, timers are fired one at a time, completion times are compared with issue time + timeout"
RULE = (
    "engine CL with timeouts 0.5/1/10 s, disconnect_on_timeout on/off, calls sharing connections, held replies released before or after the deadline or never, "
    "hanging connects, coordinator requests with a 35 s minimum; for warm calls (routing cached, so the broker request is issued at the call instant): the "
    "Deferred fires no later than issue+timeout (or the longer minimum), success only with a completely delivered reply, no delayed call for that deadline "
    "survives the reply, a late reply changes no Deferred, every call resolves once faults stop. non-trivial = a request that timed out while another call "
    "was answered, or a late reply released; distinct = distinct trace."
    " Also: with disconnect_on_timeout the silent connection is dropped at every timeout (script 'timeout2': two timeouts in a row on one broker; 'noconn': a warm call, also acks=0, to a broker whose connection cannot be re-established); engine GRP traces: JoinGroup/SyncGroup/Heartbeat of the real Coordinator must not time out earlier than the timeout (35 s minimum for joins, measured from the call), must resolve by write time + that bound, and their silent connection must be dropped."
    " At the broker connection (engine BC, script 'latereply'): a request cancelled by its owner (what the client does at the timeout) whose id is used again before its reply arrives - that late reply completes no other request."
    ' Timeouts include 1500 and 2500 ms; a produce/fetch call that reports a payload as timed out (inside FailedPayloadsError) before issue+timeout is judged like a direct RequestTimedOutError.'
)
ASSUMPTIONS = ["the timing clause is evaluated for warm calls only; cold calls first resolve routing, which the property does not bound"]
