"""C16 (engine GRP) - see RULE."""
from vlib.engines import grp
from vlib import tracefuzz
from vlib.engines.base import drive, run_trace

PROP = "C16"
NT = set("second-generation-after-consuming,evicted-while-consuming,progress-committed-before-rejoin,assignment-changed-across-generations,rejoin-with-commit-trouble".split(","))


class Eng(grp.GRPEngine):
    MACROS = ["stable", "rebalance", "rebalance", "rebalance", "evict", "evict", "commitreject", "commitreject", "netfault", "stopmid", "stopmid", "leave", "overlap", "overlap", "coordfault", "lookupfault"]
    MACRO_ONE_IN = 3

    def nontrivial(self):
        return bool(self.nt & NT) or bool(NT & self.labels)


def shard(ctx):
    drive(ctx, Eng, ctx.n(16 * 250, 16 * 4000), min_steps=6, max_steps=80, props={"C16"})
    # coverage-guided trace search (atheris driving the same Hypothesis driver, fuzz/traces.py)
    tracefuzz.run(ctx, "c16", 120 if ctx.tier == "quick" else 6000, nshards=2 if ctx.tier == "quick" else 4)


def replay(case, ctx):
    run_trace(Eng, case, ctx, props={"C16"})


TECHNIQUE = "stateful property-based testing of the real ConsumerGroup (Coordinator + partition Consumers) + KafkaClient + codec on a simulated cluster with a group-coordinator model (vlib/simgroup.py, written from Kafka's documented state machine) and harness-driven ghost members; Hypothesis draws rebalance histories, reply/timer orders, error codes on any group request, held replies, connection and broker faults, processor behaviour and stop points; ddmin-shrunk JSON traces; plus coverage-guided fuzzing of the same trace driver (atheris/libFuzzer mutating Hypothesis' choice sequence; fuzz/traces.py)"
RULE = (
    "traces over one ConsumerGroup member (1-2 topics x 1-3 partitions, session 6/30 s, heartbeat 1/2 s, backoffs 0.3-1 / 0.1 / 1.5-10 s, auto-commit every n / ms) on a 1-2 broker simulated cluster whose group coordinator is a model of Kafka's Empty/PreparingRebalance/AwaitingSync/Stable machine with session and rebalance timers; 0-3 ghost members join, leave, die (session expiry) or stall their rejoin, a ghost leader deals assignments with a drawn rotation so partitions move; steps: start, deliver/hold a reply, fire a timer, wait, append, complete an async processor call, error codes on join/sync/heartbeat/commit/lookup/offset-fetch/fetch, held replies, connection drops, brokers down/up, coordinator and leader moves, stop. oracle (wire, call outcomes, processor entries, model ledger): between this member's JoinGroup write and the success of the SyncGroup of that exchange no Fetch/ListOffsets/OffsetFetch/OffsetCommit for group partitions is written and the processor is not entered (so consumers of the previous generation - also after an eviction - are down before any rejoin); at a rejoin that follows an undisturbed generation the offset store holds the last successfully processed offset of every assigned partition unless a commit was rejected, failed or is unanswered; consumer traffic and processor entries concern only partitions of the assignment parsed (independent parser) from the member's current SyncGroup reply; the first Fetch of a partition in a generation is at the committed offset delivered to the member + 1 (or inside the log when none is stored); every OffsetCommit carries generation and member id of the latest successful JoinGroup result; at most one JoinGroup/SyncGroup call is pending; a Heartbeat is written only between the successful sync of the generation it names and the next JoinGroup write / failed heartbeat, naming the current member; after the Deferred returned by stop() has fired no JoinGroup/SyncGroup/Heartbeat is written, no consumer activity occurs and no delayed call remains. non-trivial = a second generation after the member consumed in the first, an eviction while consuming, progress committed before a rejoin, an assignment that changed across generations, or a rejoin with commit trouble; distinct = distinct trace."
    ' stop() is also placed inside the first join/sync exchange and inside a rebalance, right after a chosen request (FindCoordinator, JoinGroup, SyncGroup, Metadata) was written (step runto); topic-level metadata errors (op mderr) and differently ordered partition listings (md_order) are part of the world.'
    " Script 'overlap': a heartbeat's error answer delivered late, a commit the coordinator rejects, optionally a JoinGroup error and a failing coordinator lookup (retry timer pending), the next JoinGroup possibly left unanswered - steps live/liveto let the world run in time order for t virtual seconds or until a request kind is written."
)
ASSUMPTIONS = ['vlib/simgroup.py models a 0.10-era GroupCoordinator (JoinGroup/SyncGroup/Heartbeat/LeaveGroup v0, OffsetCommit v1 generation check); it is self-checked against a ghost-only rebalance script before use', 'group call outcomes are observed by a pass-through callback on the Deferred KafkaClient._send_request_to_coordinator / send_offset_commit_request return to the coordinator code; scheduled rejoins by wrapping the public join_and_sync() on the instance', 'what evicted consumers do between the evicting answer and the next JoinGroup is reported as a statistic only: the property demands they are stopped before any rejoin']
