"""C13 (engine CONS) - see RULE."""
from vlib.engines import cons
from vlib import tracefuzz
from vlib.engines.base import drive, run_trace

PROP = "C13"
NT = set("stop-with-processor-pending,stop-with-commit-in-flight,stop-with-reply-parked,stop-while-waiting-to-retry,stop-inside-processor".split(","))


class Eng(cons.CONSEngine):
    MACROS = ["steady", "asyncoverlap", "commitretry", "stopmid", "stopmid", "shutdownmid", "shutdownmid", "shutdownmultiblock", "shutdownmultiblock"]
    MACRO_ONE_IN = 4

    def nontrivial(self):
        return bool(self.nt & NT) or bool(NT & self.labels)


def shard(ctx):
    drive(ctx, Eng, ctx.n(16 * 250, 16 * 4000), min_steps=6, max_steps=70, props={"C13"})
    # coverage-guided trace search (atheris driving the same Hypothesis driver, fuzz/traces.py)
    tracefuzz.run(ctx, "c13", 120 if ctx.tier == "quick" else 6000, nshards=2 if ctx.tier == "quick" else 4)


def replay(case, ctx):
    run_trace(Eng, case, ctx, props={"C13"})


TECHNIQUE = "stateful property-based testing of the real Consumer + KafkaClient + codec on a simulated stateful cluster (virtual clock, harness-owned schedule) with a scripted processor (sync / async / raising / stopping / committing inside); Hypothesis draws logs, start positions, scheduler choices, faults, stop/shutdown/crash points; oracles quote the partition log, the coordinator's offset store and the request stream; ddmin-shrunk JSON traces; plus coverage-guided fuzzing of the same trace driver (atheris/libFuzzer mutating Hypothesis' choice sequence; fuzz/traces.py)"
RULE = (
    "traces over one Consumer (buffer 64..1 MiB+1, optional maximum, retry delays 0.05..30 s, attempt limit 0..5, reset policy none/earliest/latest, auto-commit every n / every ms, with or without a group) on a 1-2 broker simulated cluster; the log holds plain and gzip-wrapper batches in message format 0 or 1 with compaction gaps, null values and messages larger than the buffer, and is appended to / head-truncated while the consumer runs; steps: start (numeric / earliest / latest / committed), deliver or hold a reply, fire a timer, complete an async processor call (ok / fail), commit, stop, shutdown, crash (drop the consumer object and client, keep the cluster), error codes on fetch / offsets / commit / coordinator lookup, connection drops, broker down/up, leader and coordinator moves. oracle: after stop() returns (from any state incl. from inside the processor): no processor invocation, no fetch/offset/commit request issued by that run, no afkak timer left when the client is otherwise idle; the start() Deferred fires exactly once (instrumented: extra firing attempts counted) - by stop with the value stop returned = last processed offset, or with a failure for an unrecoverable error - never while the run continues; stop/start/shutdown never raise when legal; shutdown's Deferred fires exactly once, not before the in-progress processor call ends, and on success with a group the offset store holds the last processed offset; a stopped consumer starts again. non-trivial = stop or shutdown with a processor call pending, a commit in flight, a reply parked behind processing, a retry timer waiting, or from inside the processor; distinct = distinct trace."
    " Also: shutdown() during the first of several blocks of one reply (script 'shutdownmultiblock'); a restarted consumer must actually consume (log has messages, faults ceased, nothing delivered => violation); a value left in the offset store by a commit the consumer abandoned is not held against shutdown()."
)
ASSUMPTIONS = ['simkafka models a 0.10-era broker incl. wrappers returned whole, mid-message cuts at max_bytes and long polls (DESIGN.md 2.4)', 'a reply counts as received only if delivered before the client-side deadline of its request; replies to a previous run or incarnation are attributed by correlation id and run', 'connect latency 5 ms, service latency per reply drawn; retry-delay expectations use the constants documented in afkak/consumer.py (factor 1.20205)']
