"""C02 (engine CONS) - see RULE."""
from vlib.engines import cons
from vlib.engines.base import drive, run_trace

PROP = "C02"
NT = set("multi-fetch-run-with-wrappers-or-faults,recovered-after-faults".split(","))


class Eng(cons.CONSEngine):
    MACROS = ["steady", "steady", "asyncoverlap", "stopmid", "oor", "bigmsg", "failfetch", "crash"]
    MACRO_ONE_IN = 4

    def nontrivial(self):
        return bool(self.nt & NT) or bool(NT & self.labels)


def shard(ctx):
    drive(ctx, Eng, ctx.n(16 * 250, 16 * 4000), min_steps=6, max_steps=70, props={"C02"})


def replay(case, ctx):
    run_trace(Eng, case, ctx, props={"C02"})


TECHNIQUE = "stateful property-based testing of the real Consumer + KafkaClient + codec on a simulated stateful cluster (virtual clock, harness-owned schedule) with a scripted processor (sync / async / raising / stopping / committing inside); Hypothesis draws logs, start positions, scheduler choices, faults, stop/shutdown/crash points; oracles quote the partition log, the coordinator's offset store and the request stream; ddmin-shrunk JSON traces"
RULE = (
    "traces over one Consumer (buffer 64..1 MiB+1, optional maximum, retry delays 0.05..30 s, attempt limit 0..5, reset policy none/earliest/latest, auto-commit every n / every ms, with or without a group) on a 1-2 broker simulated cluster; the log holds plain and gzip-wrapper batches in message format 0 or 1 with compaction gaps, null values and messages larger than the buffer, and is appended to / head-truncated while the consumer runs; steps: start (numeric / earliest / latest / committed), deliver or hold a reply, fire a timer, complete an async processor call (ok / fail), commit, stop, shutdown, crash (drop the consumer object and client, keep the cluster), error codes on fetch / offsets / commit / coordinator lookup, connection drops, broker down/up, leader and coordinator moves. oracle: every processor invocation is compared with the partition log (every record ever appended): from the run's resolved start position (the number the broker answered for earliest/latest, stored offset + 1 for committed) the delivered offsets are exactly the log's records in order, no repeat, no omission, with the stored key and value; the only accepted jump is an out-of-range answer followed by the configured reset (continues at the offset the broker gave); the processor is never entered while the previous result is pending; once faults cease and the run has not ended, everything in the log is delivered within the quiet horizon. non-trivial = a run that needed more than one fetch and saw a wrapper batch, a fault or buffer growth, or a run that recovered after faults; distinct = distinct trace."
    ' The scripted processor also returns already-fired Deferreds paused on inner work (result still pending); a run that gives up below max_buffer_size on a message that fits it is a completeness violation; messages of a reply fetched before an out-of-range answer continue the old stream.'
    ' With an attempt limit N >= 3, a run that fails on a retriable broker error after fewer than N-1 consecutive failed requests following a successful one gave up within its budget (the unchanged tree gives up at N-1).'
)
ASSUMPTIONS = ['simkafka models a 0.10-era broker incl. wrappers returned whole, mid-message cuts at max_bytes and long polls (DESIGN.md 2.4)', 'a reply counts as received only if delivered before the client-side deadline of its request; replies to a previous run or incarnation are attributed by correlation id and run', 'connect latency 5 ms, service latency per reply drawn; retry-delay expectations use the constants documented in afkak/consumer.py (factor 1.20205)']
