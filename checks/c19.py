"""C19 (engine PROD) - batching thresholds, time limit and cancellation."""
from vlib.engines import prod
from vlib import tracefuzz
from vlib.engines.base import drive, run_trace

PROP = "C19"
NT = set("threshold-met-while-batch-in-flight,cancel-queued-then-more-sends,stop-with-inflight-batch-and-queue,tick-dispatch".split(","))


class Eng(prod.PRODEngine):
    BATCHING = "always"
    MACROS = ["burst", "burst", "stopinflight", "stopinflight", "cancelqueued", "cancelqueued", "holdburst", "holdburst"]
    MACRO_ONE_IN = 5

    def nontrivial(self):
        return bool(self.nt & NT) or bool(NT & self.labels)


def shard(ctx):
    drive(ctx, Eng, ctx.n(16 * 250, 16 * 5000), min_steps=8, max_steps=70, props={"C19"})
    # coverage-guided trace search (atheris driving the same Hypothesis driver, fuzz/traces.py)
    tracefuzz.run(ctx, "c19", 120 if ctx.tier == "quick" else 6000, nshards=2 if ctx.tier == "quick" else 4)


def replay(case, ctx):
    run_trace(Eng, case, ctx, props={"C19"})


TECHNIQUE = "model-based stateful property testing of the real Producer (batching enabled) + KafkaClient on a simulated cluster: a reference model of the documented batching behaviour (uncancelled queue totals, in-flight flag, tick instants) predicts every dispatch; sends, cancels, ticks, held replies and stop are drawn by Hypothesis; plus coverage-guided fuzzing of the same trace driver (atheris/libFuzzer mutating Hypothesis' choice sequence; fuzz/traces.py)"
RULE = (
    "traces over Producer(batch_send=True) with thresholds every_n in {0,1,2,5}, every_b in {0,10,200}, every_t in {0,0.5,2} (at least one enabled), sends of "
    "arbitrary sizes incl. null messages, cancel of queued / in-flight sends, timer ticks, replies held and released so batches stay in flight, stop; oracle: a "
    "reference model of the queue (count and byte totals of uncancelled queued sends), the in-flight batch and the tick instants predicts, for warm metadata, "
    "the event in which each batch is transmitted and its exact content; a send cancelled before dispatch is never transmitted and no longer counts; a send "
    "cancelled later fails with a cancellation error without disturbing the others; stop fails every outstanding send with a cancellation error and nothing "
    "is transmitted afterwards, no timer remains. non-trivial = a threshold met while a batch is in flight, a cancel of a queued send followed by more sends, "
    "a dispatch by the time limit, or stop with an in-flight batch and a non-empty queue; distinct = distinct trace."
    ' Also: a send its caller cancelled after dispatch must not be fired again by the producer; the time-limit clause waits while undelivered network events are pending and counts from the last transmission.'
)
ASSUMPTIONS = [
    "dispatch instants are compared only while topic metadata is warm and the leader's connection is up (so a dispatch is a synchronous write)",
    "with all three triggers disabled nothing is ever sent: documented consequence, not generated",
]
