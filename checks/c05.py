"""C05 - responses and message sets decode to exactly what was encoded."""
from unittest import mock

from hypothesis import strategies as st

from vlib import msgsets
from vlib import refproto as rp
from vlib.runner import hyp

PROP = "C05"
TECHNIQUE = "property-based testing: independent encoder (refproto) -> afkak decoder -> field-for-field comparison; afkak encode -> afkak decode round trip on message sets"
RULE = (
    "for each response decoder (produce v0/v2+, fetch v0/v2+, list-offsets, metadata, find-coordinator, offset-commit, "
    "offset-fetch, join, sync, heartbeat, leave, api-versions) and the two embedded consumer-protocol blobs a value tree is "
    "generated (0..4 topics/partitions/members/brokers, every error code -1..72 and unknown ones, boundary ints, empty strings, "
    "nulls where the schema is nullable), encoded by refproto and decoded by afkak; message sets (0..6 entries, plain or gzip "
    "wrapper, depth <= 2, magic 0/1, int64 offsets, timestamps, null/empty keys and values, wrappers laid out as a broker "
    "stores them) are decoded through decode_fetch_response(...).messages and compared with the protocol's logical record "
    "sequence incl. absolute offsets; plus the round trip create_message_set -> encode_produce_request -> fetch response -> "
    "decode. non-trivial = a response with >= 1 leaf entry, or a message set containing a wrapper, a magic-1 message or a "
    "null field; distinct = distinct value tree."
    ' The encode->decode round trip also uses Message objects with explicit timestamps (0, 1, -1, int64 bounds, None = now).'
)
ASSUMPTIONS = [
    "refproto's response encoders are correct for the listed API versions (self-checked; cross-checked against afkak's own "
    "request encoders by C04)",
    "well-formed responses have unique topic names / partition ids / node ids and leaders that are in the broker list or -1",
    "snappy unavailable in this sandbox: wrappers are gzip only; depth-2 magic-1 nesting is not defined by the protocol and is "
    "not generated",
    "wrappers with the LogAppendTime attribute (KIP-32 timestamp override) are not generated",
]

ERR = st.one_of(st.integers(-1, 72), st.sampled_from([0, 0, 0, 73, 87, 1000, 32767, -32768]))
I32 = st.one_of(st.integers(-(2 ** 31), 2 ** 31 - 1), st.sampled_from([-(2 ** 31), -1, 0, 1, 2 ** 31 - 1]), st.integers(0, 50))
I64 = st.one_of(st.integers(-(2 ** 63), 2 ** 63 - 1), st.sampled_from([-(2 ** 63), -1, 0, 1, 2 ** 63 - 1]), st.integers(0, 10 ** 6))
_tc = "abcdefghijklmnopqrstuvwxyzABCDEFGHIJKLMNOPQRSTUVWXYZ0123456789._-"
TOPIC = st.one_of(st.text(_tc, min_size=1, max_size=10), st.text(_tc, min_size=200, max_size=249))
HOST = st.one_of(st.text("abcdefghijklmnopqrstuvwxyz0123456789.-", min_size=1, max_size=20), st.just("127.0.0.1"), st.just(""))
TEXT = st.one_of(st.text(max_size=16), st.just(""), st.text(st.characters(min_codepoint=0x80, max_codepoint=0x2FFF), min_size=1, max_size=6))
BLOB = st.one_of(st.just(b""), st.binary(max_size=40))
PART = st.one_of(st.integers(0, 8), st.integers(0, 2 ** 31 - 1))


def tp_tree(leaf, max_topics=4, max_parts=4):
    """[(topic, [leaf-with-unique-partition...])] with unique topics."""
    return st.lists(
        st.tuples(TOPIC, st.lists(st.tuples(PART, leaf), max_size=max_parts, unique_by=lambda x: x[0])),
        max_size=max_topics, unique_by=lambda x: x[0],
    )


@st.composite
def s_produce(draw):
    ver = draw(st.sampled_from([0, 2, 2, 3, 7]))
    tree = draw(tp_tree(st.tuples(ERR, I64, I64)))
    return {"dec": "produce", "corr": draw(I32), "version": ver, "throttle": draw(I32), "tree": tree}


@st.composite
def s_fetch(draw):
    ver = draw(st.sampled_from([0, 2, 2, 5]))
    tree = draw(tp_tree(st.tuples(ERR, I64, msgsets.message_set(max_entries=4)), max_topics=2, max_parts=3))
    return {"dec": "fetch", "corr": draw(I32), "version": ver, "throttle": draw(I32), "tree": tree}


@st.composite
def s_msgset(draw):
    return {"dec": "msgset", "version": draw(st.sampled_from([0, 2])), "entries": draw(msgsets.message_set())}


@st.composite
def s_roundtrip(draw):
    magic = draw(st.sampled_from([0, 1]))
    reqs = draw(st.lists(st.tuples(msgsets.KEY, st.lists(msgsets.VALUE, min_size=1, max_size=4)), min_size=1, max_size=4))
    gz = draw(st.booleans())
    # explicit timestamps (Message is a public type; None = "now"): only for plain format-1 sets, where afkak encodes the caller's objects
    nmsg = sum(len(v) for _, v in reqs)
    ts = draw(st.lists(st.one_of(st.none(), st.sampled_from([0, 1, -1, 2 ** 63 - 1]), msgsets.TS), min_size=nmsg, max_size=nmsg)) if (magic == 1 and not gz and draw(st.booleans())) else None
    return {"dec": "roundtrip", "magic": magic, "gzip": gz, "now_ms": draw(st.integers(0, 2 ** 41)),
            "base": draw(st.integers(0, 2 ** 40)), "reqs": [[k, v] for k, v in reqs], "ts": ts}


@st.composite
def s_offsets(draw):
    return {"dec": "offsets", "corr": draw(I32), "tree": draw(tp_tree(st.tuples(ERR, st.lists(I64, max_size=4))))}


@st.composite
def s_metadata(draw):
    brokers = draw(st.lists(st.tuples(st.integers(0, 2 ** 31 - 1), HOST, I32), min_size=1, max_size=5, unique_by=lambda b: b[0]))
    nodes = [b[0] for b in brokers]
    leader = st.one_of(st.sampled_from(nodes), st.just(-1))
    reps = st.lists(st.integers(0, 2 ** 31 - 1), max_size=4)
    part = st.tuples(ERR, PART, leader, reps, reps)
    topics = draw(st.lists(st.tuples(ERR, TOPIC, st.lists(part, max_size=4, unique_by=lambda p: p[1])), max_size=4, unique_by=lambda t: t[1]))
    return {"dec": "metadata", "corr": draw(I32), "brokers": [list(b) for b in brokers], "topics": topics}


@st.composite
def s_find_coord(draw):
    return {"dec": "find_coordinator", "corr": draw(I32), "error": draw(ERR), "node": draw(I32), "host": draw(HOST), "port": draw(I32)}


@st.composite
def s_commit(draw):
    return {"dec": "offset_commit", "corr": draw(I32), "tree": draw(tp_tree(ERR))}


@st.composite
def s_offset_fetch(draw):
    meta = st.one_of(st.none(), st.just(b""), st.binary(max_size=12))
    return {"dec": "offset_fetch", "corr": draw(I32), "tree": draw(tp_tree(st.tuples(I64, meta, ERR)))}


@st.composite
def s_join(draw):
    return {"dec": "join_group", "corr": draw(I32), "error": draw(ERR), "generation": draw(I32), "protocol": draw(TEXT),
            "leader": draw(TEXT), "member": draw(TEXT), "members": draw(st.lists(st.tuples(TEXT, BLOB), max_size=4))}


@st.composite
def s_sync(draw):
    return {"dec": "sync_group", "corr": draw(I32), "error": draw(ERR), "assignment": draw(BLOB)}


@st.composite
def s_hb(draw):
    return {"dec": draw(st.sampled_from(["heartbeat", "leave_group"])), "corr": draw(I32), "error": draw(ERR)}


@st.composite
def s_apiv(draw):
    i16 = st.integers(-(2 ** 15), 2 ** 15 - 1)
    return {"dec": "api_versions", "corr": draw(I32), "error": draw(ERR),
            "versions": draw(st.lists(st.tuples(st.integers(0, 70), st.integers(0, 5), st.one_of(st.integers(0, 12), i16)), max_size=50))}


@st.composite
def s_sub(draw):
    return {"dec": "subscription", "version": draw(st.sampled_from([0, 0, 1, 3])), "topics": draw(st.lists(TEXT, max_size=5)),
            "user_data": draw(st.one_of(st.none(), BLOB))}


@st.composite
def s_asg(draw):
    return {"dec": "assignment", "assignment": draw(st.lists(st.tuples(TOPIC, st.lists(PART, max_size=5)), max_size=4, unique_by=lambda t: t[0])),
            "user_data": draw(st.one_of(st.none(), BLOB))}


STRATS = [
    ("produce", s_produce), ("fetch", s_fetch), ("msgset", s_msgset), ("roundtrip", s_roundtrip), ("offsets", s_offsets),
    ("metadata", s_metadata), ("find_coordinator", s_find_coord), ("offset_commit", s_commit), ("offset_fetch", s_offset_fetch),
    ("join_group", s_join), ("sync_group", s_sync), ("heartbeat+leave", s_hb), ("api_versions", s_apiv), ("subscription", s_sub),
    ("assignment", s_asg),
]


def _cmp_messages(ctx, tag, got, want):
    """got: list of afkak OffsetAndMessage; want: refproto.flatten() tuples."""
    if len(got) != len(want):
        ctx.flag("C05.messages", "C05.%s/message-count" % tag, "decoded %d messages, encoded %d: %r vs %r" % (len(got), len(want), got[:6], want[:6]))
        return
    for g, w in zip(got, want):
        off, magic, attrs, key, value, ts = w
        m = g.message
        fields = [("magic", m.magic, magic), ("attributes", m.attributes, attrs), ("key", m.key, key), ("value", m.value, value),
                  ("timestamp", m.timestamp, ts), ("offset", g.offset, off)]
        for name, a, b in fields:
            if a != b or type(a) is not type(b):
                kind = name
                if name == "timestamp" and isinstance(a, tuple):
                    kind = "timestamp-is-tuple"
                if name == "offset":
                    kind = "offset-in-magic%d-wrapper" % magic if True else kind
                ctx.flag("C05.messages", "C05.%s/%s" % (tag, kind), "message field %s decoded as %r, encoded %r (record %r)" % (name, a, b, w))
                return


def check(ctx, a):
    from afkak import common as C
    from afkak.kafkacodec import KafkaCodec, create_message_set

    ctx.current = a
    d = a["dec"]
    nt = False

    def bad(field, got, want):
        ctx.flag("C05.decode", "C05.decode/%s/%s" % (d, field), "%s: decoded %s = %.600r, encoded %.600r" % (d, field, got, want))

    def run(fn, *args, **kw):
        try:
            r = fn(*args, **kw)
            return list(r) if d in ("produce", "fetch", "offsets", "offset_commit", "offset_fetch") else r
        except Exception as ex:  # noqa
            ctx.flag("C05.decode", "C05.decoder-raised/%s/%s" % (d, type(ex).__name__), "%s decoder raised %r on a well-formed response" % (d, ex))
            return None

    if d == "produce":
        raw = rp.r_produce(a["corr"], [(t, [(p, e, o, lat) for p, (e, o, lat) in ps]) for t, ps in a["tree"]], version=min(a["version"], 2), throttle=a["throttle"])
        got = run(KafkaCodec.decode_produce_response, raw, api_version=a["version"])
        want = [C.ProduceResponse(t, p, e, o) for t, ps in a["tree"] for p, (e, o, lat) in ps]
        if got is not None and got != want:
            bad("responses", got, want)
        nt = bool(want)
    elif d == "fetch":
        raw = rp.r_fetch(a["corr"], [(t, [(p, e, hw, rp.encode_message_set(ms)) for p, (e, hw, ms) in ps]) for t, ps in a["tree"]],
                         version=min(a["version"], 2), throttle=a["throttle"])
        got = run(KafkaCodec.decode_fetch_response, raw, api_version=a["version"])
        want = [(t, p, e, hw, ms) for t, ps in a["tree"] for p, (e, hw, ms) in ps]
        if got is not None:
            if [(g.topic, g.partition, g.error, g.highwaterMark) for g in got] != [w[:4] for w in want]:
                bad("partition-headers", [(g.topic, g.partition, g.error, g.highwaterMark) for g in got], [w[:4] for w in want])
            for g, w in zip(got, want):
                try:
                    msgs = list(g.messages)
                except Exception as ex:  # noqa
                    ctx.flag("C05.messages", "C05.fetch/iter-raised/%s" % type(ex).__name__, "iterating messages raised %r" % ex)
                    continue
                _cmp_messages(ctx, "fetch", msgs, rp.flatten(w[4]))
        nt = bool(want)
    elif d == "msgset":
        raw = rp.r_fetch(1, [("t", [(0, 0, 0, rp.encode_message_set(a["entries"]))])], version=a["version"])
        got = run(KafkaCodec.decode_fetch_response, raw, api_version=a["version"])
        if got is not None:
            got = list(got)
            try:
                msgs = list(got[0].messages)
            except Exception as ex:  # noqa
                ctx.flag("C05.messages", "C05.msgset/iter-raised/%s" % type(ex).__name__, "iterating messages raised %r" % ex)
                msgs = None
            if msgs is not None:
                _cmp_messages(ctx, "msgset", msgs, rp.flatten(a["entries"]))
        nt = bool(msgsets.features(a["entries"]))
    elif d == "roundtrip":
        clock = mock.Mock()
        clock.time = lambda: a["now_ms"] / 1000.0
        with mock.patch("afkak.kafkacodec.time", clock):
            reqs = [C.SendRequest("t", k, vs, None) for k, vs in a["reqs"]]
            codec = C.CODEC_GZIP if a["gzip"] else C.CODEC_NONE
            msgs = create_message_set(reqs, codec, magic=a["magic"]) if a["magic"] else create_message_set(reqs, codec)
            if a.get("ts"):
                import attr as _attr

                msgs = [_attr.evolve(m, timestamp=t) for m, t in zip(msgs, a["ts"])]
            req = KafkaCodec.encode_produce_request(b"c", 1, [C.ProduceRequest("t", 0, msgs)], api_version=2 if a["magic"] else 0)
        raw_set = rp.parse_request(req)["topics"][0]["partitions"][0]["raw"]
        raw = rp.r_fetch(1, [("t", [(0, 0, 0, raw_set)])], version=2 if a["magic"] else 0)
        got = run(KafkaCodec.decode_fetch_response, raw, api_version=2 if a["magic"] else 0)
        if got is not None:
            try:
                out = list(list(got)[0].messages)
            except Exception as ex:  # noqa
                ctx.flag("C05.roundtrip", "C05.roundtrip/iter-raised/%s" % type(ex).__name__, "iterating messages raised %r" % ex)
                out = None
            if out is not None:
                ts = int((a["now_ms"] / 1000.0) * 1000) if a["magic"] else None  # what int(time.time() * 1000) yields
                want = [(a["magic"], 0, k, v, ts) for k, vs in a["reqs"] for v in vs]
                if a.get("ts"):
                    want = [(w[0], w[1], w[2], w[3], (t if t is not None else ts)) for w, t in zip(want, a["ts"])]
                seq = [(m.message.magic, m.message.attributes, m.message.key, m.message.value, m.message.timestamp) for m in out]
                if seq != want:
                    kind = "timestamp-is-tuple" if any(isinstance(s[4], tuple) for s in seq) else "sequence"
                    ctx.flag("C05.roundtrip", "C05.roundtrip/" + kind, "encode->decode is not the identity: %.500r vs %.500r" % (seq, want))
        nt = True
    elif d == "offsets":
        raw = rp.r_list_offsets(a["corr"], [(t, [(p, e, offs) for p, (e, offs) in ps]) for t, ps in a["tree"]])
        got = run(KafkaCodec.decode_offset_response, raw)
        want = [C.OffsetResponse(t, p, e, tuple(offs)) for t, ps in a["tree"] for p, (e, offs) in ps]
        if got is not None and got != want:
            bad("responses", got, want)
        nt = bool(want)
    elif d == "metadata":
        raw = rp.r_metadata(a["corr"], [tuple(b) for b in a["brokers"]], a["topics"])
        got = run(KafkaCodec.decode_metadata_response, raw)
        if got is not None:
            brokers, topics = got
            wb = {n: C.BrokerMetadata(n, h, p) for n, h, p in a["brokers"]}
            wt = {name: C.TopicMetadata(name, terr, {pid: C.PartitionMetadata(name, pid, perr, leader, tuple(reps), tuple(isr)) for perr, pid, leader, reps, isr in parts})
                  for terr, name, parts in a["topics"]}
            if brokers != wb:
                bad("brokers", brokers, wb)
            if topics != wt:
                bad("topics", topics, wt)
            for name, tm in topics.items():
                for pid, pm in tm.partition_metadata.items():
                    w = wt[name].partition_metadata[pid]
                    if (tuple(pm.replicas), tuple(pm.isr)) != (tuple(w.replicas), tuple(w.isr)):
                        bad("replicas", pm, w)
        nt = any(parts for _, _, parts in a["topics"])
    elif d == "find_coordinator":
        raw = rp.r_find_coordinator(a["corr"], a["error"], a["node"], a["host"], a["port"])
        got = run(KafkaCodec.decode_consumermetadata_response, raw)
        want = C.ConsumerMetadataResponse(a["error"], a["node"], a["host"], a["port"])
        if got is not None and got != want:
            bad("response", got, want)
        nt = True
    elif d == "offset_commit":
        raw = rp.r_offset_commit(a["corr"], [(t, [(p, e) for p, e in ps]) for t, ps in a["tree"]])
        got = run(KafkaCodec.decode_offset_commit_response, raw)
        want = [C.OffsetCommitResponse(t, p, e) for t, ps in a["tree"] for p, e in ps]
        if got is not None and got != want:
            bad("responses", got, want)
        nt = bool(want)
    elif d == "offset_fetch":
        raw = rp.r_offset_fetch(a["corr"], [(t, [(p, o, m, e) for p, (o, m, e) in ps]) for t, ps in a["tree"]])
        got = run(KafkaCodec.decode_offset_fetch_response, raw)
        want = [C.OffsetFetchResponse(t, p, o, m, e) for t, ps in a["tree"] for p, (o, m, e) in ps]
        if got is not None and got != want:
            bad("responses", got, want)
        nt = bool(want)
    elif d == "join_group":
        raw = rp.r_join_group(a["corr"], a["error"], a["generation"], a["protocol"], a["leader"], a["member"], a["members"])
        got = run(KafkaCodec.decode_join_group_response, raw)
        want = C._JoinGroupResponse(a["error"], a["generation"], a["protocol"], a["leader"], a["member"], [C._JoinGroupResponseMember(m, b) for m, b in a["members"]])
        if got is not None and got != want:
            bad("response", got, want)
        nt = bool(a["members"])
    elif d == "sync_group":
        raw = rp.r_sync_group(a["corr"], a["error"], a["assignment"])
        got = run(KafkaCodec.decode_sync_group_response, raw)
        want = C._SyncGroupResponse(a["error"], a["assignment"])
        if got is not None and got != want:
            bad("response", got, want)
        nt = True
    elif d in ("heartbeat", "leave_group"):
        if d == "heartbeat":
            got, want = run(KafkaCodec.decode_heartbeat_response, rp.r_heartbeat(a["corr"], a["error"])), C._HeartbeatResponse(a["error"])
        else:
            got, want = run(KafkaCodec.decode_leave_group_response, rp.r_leave_group(a["corr"], a["error"])), C._LeaveGroupResponse(a["error"])
        if got is not None and got != want:
            bad("response", got, want)
        nt = True
    elif d == "api_versions":
        raw = rp.r_api_versions(a["corr"], a["error"], a["versions"])
        got = run(KafkaCodec.decode_api_versions_response, raw)
        if got is not None:
            if got.error_code != a["error"]:
                bad("error_code", got.error_code, a["error"])
            wv = [C.ApiVersion(k, lo, hi) for k, lo, hi in a["versions"]]
            if list(got.api_versions) != wv:
                bad("api_versions", got.api_versions, wv)
        nt = bool(a["versions"]) or a["error"] != 0
    elif d == "subscription":
        raw = rp.encode_subscription(a["topics"], a["user_data"], a["version"])
        got = run(KafkaCodec.decode_join_group_protocol_metadata, raw)
        want = C._JoinGroupProtocolMetadata(a["version"], list(a["topics"]), a["user_data"])
        if got is not None and got != want:
            bad("blob", got, want)
        nt = bool(a["topics"])
    elif d == "assignment":
        raw = rp.encode_assignment(a["assignment"], a["user_data"], 0)
        got = run(KafkaCodec.decode_sync_group_member_assignment, raw)
        if got is not None:
            wa = {t: tuple(ps) for t, ps in a["assignment"]}
            ga = {t: tuple(ps) for t, ps in got.assignments.items()}
            if got.version != 0 or ga != wa or got.user_data != a["user_data"]:
                bad("blob", got, (0, wa, a["user_data"]))
        nt = any(ps for _, ps in a["assignment"])
    return nt


def raw_of(a):
    """(decwork decoder name, bytes) of the well-formed response for value tree a (used by C12's mutator)."""
    d = a["dec"]
    if d == "produce":
        v = min(a["version"], 2)
        return ("produce_v2" if v >= 2 else "produce_v0"), rp.r_produce(a["corr"], [(t, [(p, e, o, lat) for p, (e, o, lat) in ps]) for t, ps in a["tree"]], version=2 if v >= 2 else 0, throttle=a["throttle"])
    if d == "fetch":
        v = 2 if a["version"] >= 2 else 0
        return "fetch_v%d" % v, rp.r_fetch(a["corr"], [(t, [(p, e, hw, rp.encode_message_set(ms)) for p, (e, hw, ms) in ps]) for t, ps in a["tree"]], version=v, throttle=a["throttle"])
    if d == "msgset":
        return "message_set", rp.encode_message_set(a["entries"])
    if d == "offsets":
        return "offsets", rp.r_list_offsets(a["corr"], [(t, [(p, e, offs) for p, (e, offs) in ps]) for t, ps in a["tree"]])
    if d == "metadata":
        return "metadata", rp.r_metadata(a["corr"], [tuple(b) for b in a["brokers"]], a["topics"])
    if d == "find_coordinator":
        return "find_coordinator", rp.r_find_coordinator(a["corr"], a["error"], a["node"], a["host"], a["port"])
    if d == "offset_commit":
        return "offset_commit", rp.r_offset_commit(a["corr"], [(t, [(p, e) for p, e in ps]) for t, ps in a["tree"]])
    if d == "offset_fetch":
        return "offset_fetch", rp.r_offset_fetch(a["corr"], [(t, [(p, o, m, e) for p, (o, m, e) in ps]) for t, ps in a["tree"]])
    if d == "join_group":
        return "join_group", rp.r_join_group(a["corr"], a["error"], a["generation"], a["protocol"], a["leader"], a["member"], a["members"])
    if d == "sync_group":
        return "sync_group", rp.r_sync_group(a["corr"], a["error"], a["assignment"])
    if d == "heartbeat":
        return "heartbeat", rp.r_heartbeat(a["corr"], a["error"])
    if d == "leave_group":
        return "leave_group", rp.r_leave_group(a["corr"], a["error"])
    if d == "api_versions":
        return "api_versions", rp.r_api_versions(a["corr"], a["error"], a["versions"])
    if d == "subscription":
        return "subscription", rp.encode_subscription(a["topics"], a["user_data"], a["version"])
    if d == "assignment":
        return "assignment", rp.encode_assignment(a["assignment"], a["user_data"], 0)
    raise KeyError(d)


VALID_RESPONSE = st.one_of(*[s() for n, s in STRATS if n != "roundtrip"])


def shard(ctx):
    for i, (name, strat) in enumerate(STRATS):
        per_q, per_t = (2000, 60000) if name in ("msgset", "roundtrip") else (400, 10000)

        def body(a, name=name):
            nt = check(ctx, a)
            labels = ["dec:" + name]
            if a["dec"] == "msgset":
                labels += sorted(msgsets.features(a["entries"]))
            ctx.case(key=a, nontrivial=nt, labels=labels, sample=a)

        hyp(ctx, strat(), body, ctx.n(per_q, per_t), offset=i)


def replay(case, ctx):
    check(ctx, case)


def selfcheck():
    rp.selfcheck()
