"""C04 (b): version negotiation end-to-end through KafkaClient on the simulated cluster (engine CL)."""
from vlib.engines import cl, prod
from vlib.engines.base import drive, run_trace


class Eng(cl.CLEngine):
    MACROS = ["warmup", "warmup", "warmup", "partial", "notleader"]
    MACRO_ONE_IN = 5

    def nontrivial(self):
        return "negotiated-produce-and-fetch" in self.nt


class PEng(prod.PRODEngine):
    """the real Producer picks the message format; the strict parser checks it fits the negotiated produce version"""

    MACROS = ["burst", "burst", "partial"]
    MACRO_ONE_IN = 4

    def nontrivial(self):
        return self.config["discovery"] == "on" and any(s.watch is not None and s.watch.state == "ok" for s in self.sends)


def shard(ctx):
    drive(ctx, Eng, ctx.n(16 * 40, 16 * 1500), min_steps=8, max_steps=50, offset=77, props={"C04"})
    drive(ctx, PEng, ctx.n(16 * 30, 16 * 1000), min_steps=6, max_steps=40, offset=78, props={"C04"})


def replay(case, ctx):
    run_trace(PEng if case.get("engine") == "PROD" else Eng, case, ctx, props={"C04"})
