"""C04 (b): version negotiation end-to-end through KafkaClient on the simulated cluster (engine CL)."""
from vlib.engines import cl
from vlib.engines.base import drive, run_trace


class Eng(cl.CLEngine):
    MACROS = ["warmup", "warmup", "warmup", "partial", "notleader"]
    MACRO_ONE_IN = 5

    def nontrivial(self):
        return "negotiated-produce-and-fetch" in self.nt


def shard(ctx):
    drive(ctx, Eng, ctx.n(16 * 40, 16 * 1500), min_steps=8, max_steps=50, offset=77, props={"C04"})


def replay(case, ctx):
    run_trace(Eng, case, ctx, props={"C04"})
