"""C18 - partitioners: deterministic, in range, Java-compatible, fair."""
import random

from hypothesis import strategies as st

from vlib import jvm
from vlib.engines import prod as _prod
from vlib.engines.base import drive as _drive, run_trace as _run_trace
from vlib.runner import hyp

PROP = "C18"
TECHNIQUE = "property-based testing: differential against Kafka's murmur2 on the JVM + model-based histories for round-robin"
RULE = (
    "keys: Hypothesis-generated batches (every length 0..67, some to 4 KiB, bytes >= 0x80 over-weighted, text keys) plus "
    "exhaustive enumeration of all keys of length <= 2 (thorough: also all 3-byte keys); each key is hashed by "
    "pure_murmur2 and by Kafka's Utils.murmur2 running on the JVM, and HashedPartitioner.partition is compared with "
    "L[(h & 0x7fffffff) % len(L)] for bytes/bytearray/str forms, two instances, repeated calls. "
    "round-robin: generated histories of selections over 1-3 partitioner instances with partition-list changes at "
    "arbitrary points, fixed or random start; oracle = every window of n consecutive selections inside a maximal run "
    "with an unchanged ascending list of n partitions is a permutation of the list. "
    "non-trivial = key with len % 4 != 0 whose tail contains a byte >= 0x80, or a non-ASCII text key, or a history "
    "with a list change strictly inside a cycle; distinct = distinct key / distinct history."
    " Through the producer (engine PROD, observing partitioner subclasses): one partitioner instance per topic, every window of n consecutive round-robin selections over an unchanged list is a permutation of it - also across metadata reloads; hashed selections equal a fresh instance's; a hashed partitioner built for a longer/shorter list than the one passed selects like the Java client."
    " The simulated brokers list a topic's partitions in ascending, descending or rotated order (md_order): through the producer the hashed choice must be the Java client's partition id (murmur2 mod n over the ascending ids) and round-robin fairness is judged over the topic's partition set."
)
ASSUMPTIONS = [
    "ref/Murmur2Ref.java is a faithful transcription of org.apache.kafka.common.utils.Utils.murmur2 (checked at "
    "start-up against the Java-derived vectors in afkak/test/test_partitioner.py)",
    "murmurhash2 C extension is not installed in this sandbox, so HashedPartitioner uses pure_murmur2",
    "round-robin is exercised with ascending lists only, as the property states and KafkaClient.topic_partitions provides",
]

_J = None
_J_pid = None


def J():
    """One JVM per process (a forked shard must not share the parent's pipes)."""
    global _J, _J_pid
    import os

    if _J is None or _J_pid != os.getpid():
        _J = jvm.JavaMurmur2()
        _J_pid = os.getpid()
    return _J


# Java-derived vectors quoted from afkak/test/test_partitioner.py (written by the repository's authors,
# not produced by afkak at run time): third-party vectors for my transcription of Utils.murmur2.
_VECTORS = [
    (b"", 275646681),
    (b"testing", 2291530147),
    (b"PEACH!", 2546348827),
    (b"Gorz!", 1742407956),
    (b"987654321", 577579727),
    (b"_!!_", 2335345241),
    (b"CRINOID", 3603193626),
    (b"The rain in Spain falls mainly on the plain.", 2823782121),
    ("\uc2ac\ue188\ub4e2\u82ac\ue880".encode("utf-8"), 3978338664),
    (b"lasquinceletras", 4030895744),
]


def selfcheck():
    j = J()
    got = j.hash_many([k for k, _ in _VECTORS])
    for (k, want), g in zip(_VECTORS, got):
        if g & 0xFFFFFFFF != want:
            raise AssertionError("murmur2 oracle (%s) disagrees with Java-derived vector %r: %d != %d" % (j.kind, k, g & 0xFFFFFFFF, want))
    # cross-check the JVM against the independent two's-complement transcription
    ks = [bytes([(i * 37 + q * 11 + 128) & 0xFF for q in range(i)]) for i in range(0, 40)]
    if j.hash_many(ks) != [jvm._fallback(k) for k in ks]:
        raise AssertionError("JVM oracle and two's-complement transcription disagree")


def _forms(key):
    forms = [("bytes", bytes(key)), ("bytearray", bytearray(key))]
    try:
        s = key.decode("utf-8")
        if s.encode("utf-8") == key:
            forms.append(("str", s))
    except UnicodeDecodeError:
        pass
    return forms


def check_key(ctx, key, parts, jh, light=False):
    from afkak.partitioner import HashedPartitioner, pure_murmur2

    ctx.current = {"kind": "key", "key": key, "parts": parts}
    want_h = jh & 0xFFFFFFFF
    got_h = pure_murmur2(bytearray(key))
    if (got_h & 0xFFFFFFFF) != want_h:
        ctx.flag(
            "C18.murmur2-java",
            "C18.murmur2-java/len%%4=%d" % (len(key) % 4),
            "pure_murmur2(%r)=%d, JVM murmur2=%d" % (key, got_h, want_h),
        )
    want_p = parts[(jh & 0x7FFFFFFF) % len(parts)]
    p1 = HashedPartitioner("t", parts)
    forms = _forms(key)
    for name, form in forms:
        got = p1.partition(form, parts)
        if got not in parts:
            ctx.flag("C18.in-range", "C18.in-range/" + name, "partition(%r, %r) = %r not in list" % (form, parts, got))
        if got != want_p:
            ctx.flag(
                "C18.hashed-java-colocation",
                "C18.hashed-java-colocation/" + name,
                "partition(%r, %r) = %r, Java client selects %r" % (form, parts, got, want_p),
            )
        # the list passed to the call is the one that counts (the producer builds the partitioner once per topic and passes the
        # current partition list on every call): an instance built when the topic had more / fewer partitions must agree
        for ctor in (parts + [max(parts) + 1], parts[:-1] or [parts[0], parts[0] + 1, parts[0] + 2]):
            try:
                got3 = HashedPartitioner("t", ctor).partition(form, parts)
            except Exception as e:  # noqa - a valid key and a non-empty list: raising is not "returns a member of the list"
                got3 = "raised %r" % (e,)
            if got3 != want_p:
                ctx.flag("C18.hashed-java-colocation", "C18.hashed-java-colocation/list-changed-since-construction/" + name,
                         "HashedPartitioner built for %r: partition(%r, %r) = %r, Java client selects %r" % (ctor, form, parts, got3, want_p))
        if not light:
            p2 = HashedPartitioner("other", list(parts))
            again = (p1.partition(form, parts), p2.partition(form, list(parts)))
            if again != (got, got):
                ctx.flag("C18.deterministic", "C18.deterministic/" + name, "repeat/instance results %r vs %r" % (again, got))
    return forms


def _nontrivial_key(key, forms):
    tail = len(key) % 4
    if tail and any(b >= 0x80 for b in key[len(key) - tail:]):
        return True
    return any(n == "str" and any(ord(c) > 127 for c in f) for n, f in forms)


# ---------------------------------------------------------------------------
# round robin


def run_rr(ctx, case):
    from afkak.partitioner import RoundRobinPartitioner

    ctx.current = case
    lists = case["lists"]
    saved = RoundRobinPartitioner.randomStart
    state = random.getstate()
    try:
        random.seed(case["rseed"])
        RoundRobinPartitioner.set_random_start(bool(case["random_start"]))
        insts = {}
        runs = {}  # inst -> [list index, [selections]]
        mid_cycle_change = False
        for inst, li, count in case["segments"]:
            L = list(lists[li % len(lists)])
            if inst not in insts:
                insts[inst] = RoundRobinPartitioner("topic%d" % inst, list(L))
                runs[inst] = [L, []]
            if runs[inst][0] != L:
                prev_L, prev_sel = runs[inst]
                if len(prev_L) > 1 and len(prev_sel) % len(prev_L) != 0:
                    mid_cycle_change = True
                runs[inst] = [L, []]
            for _ in range(count):
                got = insts[inst].partition(None, list(L))
                sel = runs[inst][1]
                sel.append(got)
                n = len(L)
                if got not in L:
                    ctx.flag("C18.in-range", "C18.rr-in-range", "selected %r not in %r (history %r)" % (got, L, sel))
                if len(sel) >= n:
                    window = sel[-n:]
                    if sorted(window) != L:
                        ctx.flag(
                            "C18.rr-fair-window",
                            "C18.rr-fair-window/random_start=%s" % bool(case["random_start"]),
                            "window %r of %d consecutive selections over unchanged list %r is not a permutation" % (window, n, L),
                        )
        return mid_cycle_change
    finally:
        RoundRobinPartitioner.set_random_start(saved)
        random.setstate(state)


_part_list = st.lists(st.integers(0, 5000), min_size=1, max_size=50, unique=True).map(sorted)
_small_list = st.lists(st.integers(0, 40), min_size=1, max_size=6, unique=True).map(sorted)
_byte = st.one_of(st.integers(0, 255), st.integers(128, 255), st.sampled_from([0, 0x7F, 0x80, 0xFF]))
_key = st.one_of(
    st.integers(0, 67).flatmap(lambda n: st.lists(_byte, min_size=n, max_size=n)).map(bytes),
    st.integers(0, 67).flatmap(lambda n: st.lists(_byte, min_size=n, max_size=n)).map(bytes),
    st.text(max_size=24).map(lambda s: s.encode("utf-8")),
    st.binary(min_size=68, max_size=4096),
)
_batch = st.tuples(st.lists(_key, min_size=1, max_size=40), st.one_of(_part_list, _small_list))

_rr_case = st.fixed_dictionaries(
    {
        "kind": st.just("rr"),
        "random_start": st.booleans(),
        "rseed": st.integers(0, 2 ** 16),
        "lists": st.lists(_small_list, min_size=1, max_size=4),
        "segments": st.lists(st.tuples(st.integers(0, 2), st.integers(0, 3), st.integers(1, 14)), min_size=1, max_size=14),
    }
)


class ProdEng(_prod.PRODEngine):
    """the anchored mechanism 'producer keeps one partitioner per topic and passes the current partition list': selections observed
    through observing partitioner subclasses while the real Producer runs into leader moves, error codes and metadata reloads"""
    MACROS = ["partial", "leadermove", "leadermove", "leaderless", "leaderless", "sendduringretry", "burst", "burst"]
    MACRO_ONE_IN = 3

    def nontrivial(self):
        return "producer-round-robin-window-checked" in self.nt or any(len(v) >= 3 for v in self.selections.values())


def shard(ctx):
    _drive(ctx, ProdEng, ctx.n(16 * 60, 16 * 1500), min_steps=8, max_steps=60, offset=4, props={"C18"})
    j = J()
    ctx.extra["murmur2_oracle"] = j.kind

    # (a) generated keys, batched through the JVM
    def body(v):
        keys, parts = v
        hs = j.hash_many(keys)
        for k, h in zip(keys, hs):
            forms = check_key(ctx, k, parts, h)
            nt = _nontrivial_key(k, forms)
            ctx.case(key=k, nontrivial=nt, labels=["key", "len%%4=%d" % (len(k) % 4)] + (["text-form"] if len(forms) > 2 else []),
                     sample={"key": k, "partitions": parts, "java_murmur2": h})

    hyp(ctx, _batch, body, ctx.n(16 * 60, 16 * 1500))

    # (b) exhaustive short keys: shard i takes first byte (or whole key index) congruent i mod nshards
    maxlen = 2 if ctx.tier == "quick" else 3
    parts_choices = [[0], [0, 1, 2], list(range(0, 50, 7)), list(range(12))]
    count = 0
    ntc = 0
    for n in range(0, maxlen + 1):
        total = 256 ** n
        idxs = range(ctx.shard, total, ctx.nshards)
        buf = []
        for i in idxs:
            buf.append(i.to_bytes(n, "big") if n else b"")
            if len(buf) == 20000:
                c, t = _exh(ctx, j, buf, parts_choices)
                count += c
                ntc += t
                buf = []
        if buf:
            c, t = _exh(ctx, j, buf, parts_choices)
            count += c
            ntc += t
    ctx.evaluations += count
    ctx.labels["exhaustive-short-key"] += count
    ctx.extra["exhaustive_keys_len_le_%d" % maxlen] = count
    ctx.extra["nt_extra"] = ntc

    # (c) round-robin histories
    def rr_body(case):
        mid = run_rr(ctx, case)
        nsel = sum(s[2] for s in case["segments"])
        ctx.case(key=case, nontrivial=mid, labels=["rr-history"] + (["rr-random-start"] if case["random_start"] else []) + (["rr-mid-cycle-change"] if mid else []),
                 sample={"history": case, "selections": nsel})

    hyp(ctx, _rr_case, rr_body, ctx.n(8000, 120000), offset=1)
    j.close()
    global _J
    _J = None


def _exh(ctx, j, keys, parts_choices):
    hs = j.hash_many(keys)
    nt = 0
    for k, h in zip(keys, hs):
        parts = parts_choices[(len(k) + (k[-1] if k else 0)) % len(parts_choices)]
        forms = check_key(ctx, k, parts, h, light=True)
        if _nontrivial_key(k, forms):
            nt += 1
    return len(keys), nt


EXHAUSTIVE = {"quick": "all keys of length <= 2 (65,793 keys)", "thorough": "all keys of length <= 3 (16,843,009 keys)"}


def replay(case, ctx):
    if isinstance(case, dict) and case.get("engine") == "PROD":
        _run_trace(ProdEng, case, ctx, props={"C18"})
        return
    if case["kind"] == "key":
        j = J()
        h = j.hash_many([case["key"]])[0]
        check_key(ctx, case["key"], case["parts"], h)
    else:
        run_rr(ctx, case)
