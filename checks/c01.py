"""C01 (engine PROD) - see RULE."""
from vlib.engines import prod
from vlib.engines.base import drive, run_trace

PROP = "C01"
NT = set("send-with-several-attempts,partial-failure-attempt,stop-with-request-in-flight".split(","))


class Eng(prod.PRODEngine):
    MACROS = prod.PRODEngine.MACROS + ["unroutable", "unroutable"]
    MACRO_ONE_IN = 5

    def nontrivial(self):
        return bool(self.nt & NT) or bool(NT & self.labels)


def shard(ctx):
    drive(ctx, Eng, ctx.n(16 * 250, 16 * 5000), min_steps=8, max_steps=70, props={"C01"})


def replay(case, ctx):
    run_trace(Eng, case, ctx, props={"C01"})

TECHNIQUE = "stateful property-based testing of the real Producer + KafkaClient on a simulated stateful cluster: Hypothesis draws sends, cancellations, stop, every scheduler choice and fault; each send's outcome is judged against the cluster's acknowledgement ledger (what was answered, by which broker, and whether the reply bytes were delivered in time)"
RULE = (
    "traces over Producer+KafkaClient+simkafka: configurations (acks 0/1/-1, unbatched or batched with generated thresholds, codec none/gzip, 1-4 attempts, "
    "retry interval, negotiated or legacy message format incl. unordered ApiVersions tables, round-robin or hashed partitioner, 1-3 brokers, 1-2 topics x 1-4 "
    "partitions), sends with null/empty/padded/70KiB values and keys, cancel, stop, per-partition produce error codes for the next k attempts, held / late / "
    "never-delivered replies, drops, refused connects, leader moves, brokers down/up, topic metadata errors, unknown topics; oracle: each send Deferred fires "
    "exactly once (checked after a final stop), a success carries a ProduceResponse naming the send's topic with error 0 whose partition was acknowledged with "
    "error 0 by the broker then leading it, for a request containing exactly the send's messages (key, values, order), the reply having been delivered in "
    "time; with acks=0 the value is None and the request was handed to a connection; anything else must be a failure; keyed sends land on the partition "
    "Java's murmur2 selects. non-trivial = a send transmitted in >=2 attempts, a partial (per-partition mixed) outcome, or a stop with a request in flight; "
    "distinct = distinct trace."
    " Also: a send to a topic that does not exist fails within the attempt budget (not never), and on an unbatched producer no send is left pending once faults are lifted and nothing is outstanding (script 'unroutable': several sends to an unknown topic close together)."
)
ASSUMPTIONS = [
    "simkafka models a 0.10-era broker; oracles quote its acknowledgement ledger (DESIGN.md 2.4)",
    "an acknowledgement counts as received only if its reply was completely delivered before the client-side deadline and before stop()",
    "'fires exactly once' is judged after a final Producer.stop(), which must fail whatever is still queued",
]
