"""C07 (engine CL) - see RULE."""
from vlib.engines import cl
from vlib.engines.base import drive, run_trace

PROP = "C07"
NT = set("multi-broker-call,partial-failure,unaware-request-exhausted-all-hosts".split(","))


class Eng(cl.CLEngine):
    MACROS = ["warmup", "warmup", "partial", "partial", "notleader", "timeout", "remove", "silentboot", "silentboot", "readdress", "readdress", "twoaddr", "twoaddr"]
    MACRO_ONE_IN = 8

    def nontrivial(self):
        return bool(self.nt & NT) or bool(NT & self.labels)


def shard(ctx):
    drive(ctx, Eng, ctx.n(16 * 250, 16 * 6000), min_steps=8, max_steps=70, props={"C07"})


def replay(case, ctx):
    run_trace(Eng, case, ctx, props={"C07"})

TECHNIQUE = "stateful property-based testing of the real KafkaClient on a simulated cluster (independent protocol implementation with state), scheduler-owned reply order and faults; routing/order/accounting invariants over the per-broker request log"
RULE = (
    "traces over one real KafkaClient and simkafka clusters of 1-4 brokers with generated leader maps (incl. leaderless partitions) and coordinators: "
    "produce/fetch/offsets/offset-fetch/offset-commit calls over 1-5 payloads in any order (also unknown topics/partitions), coordinator requests, "
    "metadata/coordinator loads, every reply order and chunking, per-broker error codes, held/late replies, drops, refused/hanging connects, brokers "
    "down/up/re-addressed, leader and coordinator moves; oracle: every payload is written in exactly one request per call on a connection to a node "
    "the client's metadata named as leader/coordinator during the call, one request per broker, successful results list (topic,partition) in payload "
    "order with the values the broker answered, FailedPayloadsError accounts for every payload exactly once (responses in payload order, only "
    "delivered replies counted as responses), and a broker-agnostic call fails as unavailable only after every known broker and then every bootstrap "
    "host was tried. non-trivial = a call over >=3 payloads answered by >=2 brokers, or a partial failure, or an exhausted fallback; distinct = distinct trace."
    " Also: a broker-agnostic load that gives up with None is held to the fallback clause (scripts 'silentboot': bootstrap hosts that accept and stay silent); 'connected first' uses the client's own notion of connected at the call; dialling an address the current metadata no longer names violates routing; an acks=0 call reported successful although a payload never reached a connection violates accounting; script 'twoaddr': one broker cached under two addresses must still get ONE request."
)
ASSUMPTIONS = [
    "simkafka models a 0.10-era broker (DESIGN.md 2.4); oracles quote what the model answered, so model inaccuracy changes which situations arise, not whether afkak's reaction is right",
    "the client's routing cache is read through the documented attributes topics_to_brokers / consumer_group_to_brokers",
    "per-call unique (topic, partition) payloads, as _send_broker_aware_request documents",
]
