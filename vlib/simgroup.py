"""Group-coordinator model (ground truth for engine GRP) - DESIGN.md Appendix B.

A 0.10-era GroupCoordinator for JoinGroup/SyncGroup/Heartbeat/LeaveGroup v0 and the generation
check of OffsetCommit v1, written from Kafka's documented state machine
(Empty / PreparingRebalance / AwaitingSync / Stable), not from afkak.

Members are either *network* members (their replies travel over a simnet connection through the
cluster's reply ledger) or *ghosts* (harness-driven members without a network; well behaved by
default: they rejoin as soon as a rebalance starts and sync as soon as the join completes).
All timers live on the simulated clock.
"""
from . import refproto as rp

E_COORD_LOADING, E_COORD_NOT_AVAILABLE, E_NOT_COORDINATOR = 14, 15, 16
E_ILLEGAL_GENERATION, E_INCONSISTENT_PROTOCOL, E_INVALID_GROUP_ID = 22, 23, 24
E_UNKNOWN_MEMBER, E_INVALID_SESSION_TIMEOUT, E_REBALANCE_IN_PROGRESS = 25, 26, 27

EMPTY, PREPARING, AWAITING_SYNC, STABLE = "Empty", "PreparingRebalance", "AwaitingSync", "Stable"


class Member(object):
    def __init__(self, mid, session_ms, ptype, protocols, ghost=False):
        self.id = mid
        self.session_ms = session_ms
        self.ptype = ptype
        self.protocols = protocols  # [(name, metadata bytes)]
        self.ghost = ghost
        self.join_cb = None  # pending JoinGroup responder: fn(code, generation, protocol, leader, member_id, members)
        self.sync_cb = None  # pending SyncGroup responder: fn(code, assignment bytes)
        self.assignment = b""
        self.timer = None
        self.lazy = False  # ghost only: does not rejoin by itself
        self.dead = False  # ghost only: stopped heartbeating (its session timer runs out)
        self.joined_generation = None

    def matches(self, protocols):
        return self.protocols == protocols


class Group(object):
    def __init__(self, cluster, name):
        self.cluster = cluster
        self.world = cluster.world
        self.name = name
        self.state = EMPTY
        self.generation = 0
        self.leader = None
        self.protocol = None
        self.ptype = None
        self.members = {}  # id -> Member, insertion ordered
        self._next = 0
        self.rebalance_timer = None
        self.history = []  # (time, event, detail) - the model's own ledger, quoted by the oracles
        self.assign_fn = None  # ghost leader: fn(group, [(member id, metadata)]) -> {member id: assignment bytes}
        self.ghost_log = []

    # ------------------------------------------------------------------ helpers
    def _log(self, what, **kw):
        kw["t"] = self.world.now
        kw["what"] = what
        kw["generation"] = self.generation
        kw["state"] = self.state
        self.history.append(kw)

    def _arm_session(self, m):
        if m.timer is not None:
            self.world.cancel_timer(m.timer)
            m.timer = None
        if m.ghost and not m.dead:
            return  # a live ghost heartbeats perfectly
        m.timer = self.world.call_later(m.session_ms / 1000.0, lambda: self._expire(m), tag="session-timeout")

    def _expire(self, m):
        m.timer = None
        if self.members.get(m.id) is not m:
            return
        if m.join_cb is not None and not m.ghost:
            # a member waiting in JoinGroup is kept alive by the coordinator while the join is pending
            self._arm_session(m)
            return
        self._log("session-expired", member=m.id)
        self._remove(m)

    def _remove(self, m):
        self.members.pop(m.id, None)
        if m.timer is not None:
            self.world.cancel_timer(m.timer)
            m.timer = None
        if m.sync_cb is not None:
            cb, m.sync_cb = m.sync_cb, None
            cb(E_UNKNOWN_MEMBER, b"")
        if m.join_cb is not None:
            cb, m.join_cb = m.join_cb, None
            cb(E_UNKNOWN_MEMBER, -1, "", "", m.id, [])
        if self.state in (STABLE, AWAITING_SYNC):
            self._prepare_rebalance("member-removed")
        elif self.state == PREPARING:
            self._maybe_complete_join()
        self.pump()

    def _prepare_rebalance(self, why):
        if self.state == AWAITING_SYNC:
            for m in list(self.members.values()):
                m.assignment = b""
                if m.sync_cb is not None:
                    cb, m.sync_cb = m.sync_cb, None
                    cb(E_REBALANCE_IN_PROGRESS, b"")
        self.state = PREPARING
        self._log("prepare-rebalance", why=why)
        if self.rebalance_timer is not None:
            self.world.cancel_timer(self.rebalance_timer)
        timeout = max([m.session_ms for m in self.members.values()] or [0]) / 1000.0
        self.rebalance_timer = self.world.call_later(timeout, self._rebalance_timeout, tag="rebalance-timeout")

    def _rebalance_timeout(self):
        self.rebalance_timer = None
        if self.state != PREPARING:
            return
        for m in [m for m in self.members.values() if m.join_cb is None]:
            self._log("removed-not-rejoined", member=m.id)
            self.members.pop(m.id, None)
            if m.timer is not None:
                self.world.cancel_timer(m.timer)
                m.timer = None
        self._complete_join()
        self.pump()

    def _maybe_complete_join(self):
        if self.state == PREPARING and all(m.join_cb is not None for m in self.members.values()):
            self._complete_join()

    def _complete_join(self):
        if self.rebalance_timer is not None:
            self.world.cancel_timer(self.rebalance_timer)
            self.rebalance_timer = None
        self.generation += 1
        if not self.members:
            self.state = EMPTY
            self.leader = None
            self.protocol = None
            self._log("group-empty")
            return
        if self.leader not in self.members:
            self.leader = next(iter(self.members))
        # the protocol every member supports, by vote of first preference
        common = None
        for m in self.members.values():
            names = [n for n, _ in m.protocols]
            common = names if common is None else [n for n in common if n in names]
        self.protocol = common[0] if common else None
        self.state = AWAITING_SYNC
        self._log("join-complete", leader=self.leader, members=list(self.members))
        listing = [(m.id, dict(m.protocols).get(self.protocol, b"")) for m in self.members.values()]
        for m in list(self.members.values()):
            cb, m.join_cb = m.join_cb, None
            m.joined_generation = self.generation
            m.assignment = b""
            self._arm_session(m)
            cb(0, self.generation, self.protocol, self.leader, m.id, listing if m.id == self.leader else [])

    # ------------------------------------------------------------------ entry points (network and ghosts)
    def join(self, member_id, session_ms, ptype, protocols, cb, ghost_state=None, lazy=False):
        """cb(code, generation, protocol, leader, member_id, members) - possibly called later"""
        if member_id and member_id not in self.members:
            cb(E_UNKNOWN_MEMBER, -1, "", "", member_id, [])
            return None
        if self.members and (ptype != self.ptype or not self._supports(protocols)):
            cb(E_INCONSISTENT_PROTOCOL, -1, "", "", member_id, [])
            return None
        if not self.members:
            self.ptype = ptype
        if not member_id:
            self._next += 1
            m = Member("%s-member-%d" % ("ghost" if ghost_state is not None else "verif", self._next), session_ms, ptype, protocols)
            if ghost_state is not None:
                m.ghost, m.ghost_state, m.lazy = True, ghost_state, lazy
                cb = self._ghost_join_cb(m)
            self.members[m.id] = m
            m.join_cb = cb
            self._log("member-added", member=m.id)
            if self.state != PREPARING:
                self._prepare_rebalance("new-member")
            self._arm_session(m)
            self._maybe_complete_join()
            self.pump()
            return m
        m = self.members[member_id]
        if m.join_cb is not None:
            # a second JoinGroup of the same member replaces the pending one (the old connection is gone or the client retried)
            m.join_cb = None
        if self.state == PREPARING:
            m.protocols, m.session_ms = protocols, session_ms
            m.join_cb = cb
            self._arm_session(m)
            self._maybe_complete_join()
        elif self.state == AWAITING_SYNC:
            if m.matches(protocols):
                listing = [(x.id, dict(x.protocols).get(self.protocol, b"")) for x in self.members.values()]
                self._arm_session(m)
                cb(0, self.generation, self.protocol, self.leader, m.id, listing if m.id == self.leader else [])
            else:
                m.protocols, m.session_ms = protocols, session_ms
                m.join_cb = cb
                self._prepare_rebalance("metadata-changed")
                self._maybe_complete_join()
        elif self.state == STABLE:
            if m.id == self.leader or not m.matches(protocols):
                m.protocols, m.session_ms = protocols, session_ms
                m.join_cb = cb
                self._prepare_rebalance("leader-rejoined" if m.id == self.leader else "metadata-changed")
                self._arm_session(m)
                self._maybe_complete_join()
            else:
                self._arm_session(m)
                cb(0, self.generation, self.protocol, self.leader, m.id, [])
        self.pump()
        return m

    def _supports(self, protocols):
        names = set(n for n, _ in protocols)
        for m in self.members.values():
            if not names & set(n for n, _ in m.protocols):
                return False
        return True

    def sync(self, member_id, generation, assignments, cb):
        """cb(code, assignment)"""
        m = self.members.get(member_id)
        if m is None or self.state == EMPTY:
            cb(E_UNKNOWN_MEMBER, b"")
            return
        if generation != self.generation:
            cb(E_ILLEGAL_GENERATION, b"")
            return
        if self.state == PREPARING:
            cb(E_REBALANCE_IN_PROGRESS, b"")
            return
        if self.state == AWAITING_SYNC:
            m.sync_cb = cb
            self._arm_session(m)
            if member_id == self.leader:
                table = dict(assignments)
                for x in self.members.values():
                    x.assignment = table.get(x.id, b"")
                self.state = STABLE
                self._log("sync-complete", assignments=dict((x.id, x.assignment) for x in self.members.values()))
                for x in list(self.members.values()):
                    self._arm_session(x)
                    if x.sync_cb is not None:
                        c2, x.sync_cb = x.sync_cb, None
                        c2(0, x.assignment)
            self.pump()
            return
        # Stable
        self._arm_session(m)
        cb(0, m.assignment)

    def heartbeat(self, member_id, generation):
        m = self.members.get(member_id)
        if self.state == EMPTY or m is None:
            return E_UNKNOWN_MEMBER
        if self.state == AWAITING_SYNC:
            return E_REBALANCE_IN_PROGRESS
        if generation != self.generation:
            return E_ILLEGAL_GENERATION
        self._arm_session(m)
        if self.state == PREPARING:
            return E_REBALANCE_IN_PROGRESS
        return 0

    def leave(self, member_id):
        m = self.members.get(member_id)
        if m is None:
            return E_UNKNOWN_MEMBER
        self._log("member-left", member=member_id)
        self._remove(m)
        return 0

    def commit_check(self, generation, member_id):
        if self.state == EMPTY and generation < 0:
            return 0
        if self.state == AWAITING_SYNC:
            return E_REBALANCE_IN_PROGRESS if member_id in self.members else E_UNKNOWN_MEMBER
        m = self.members.get(member_id)
        if m is None:
            return E_UNKNOWN_MEMBER
        if generation != self.generation:
            return E_ILLEGAL_GENERATION
        self._arm_session(m)
        return 0

    # ------------------------------------------------------------------ ghosts
    def ghost_add(self, session_ms, topics, lazy=False):
        meta = rp.encode_subscription(list(topics))
        m = self.join("", session_ms, "consumer", [("consumer", meta)], None, ghost_state={}, lazy=lazy)
        if m is not None:
            self.ghost_log.append((self.world.now, "add", m.id))
        return m

    def _ghost_join_cb(self, m):
        def cb(code, generation, protocol, leader, member_id, members):
            m.ghost_state["last"] = (code, generation, leader, member_id, members)
            m.ghost_state["need_sync"] = code == 0

        return cb

    def ghost_rejoin(self, m):
        """the ghost sends its JoinGroup now (a lazy ghost only does so when told)"""
        if self.members.get(m.id) is not m or m.join_cb is not None:
            return False
        self.join(m.id, m.session_ms, m.ptype, m.protocols, self._ghost_join_cb(m))
        return True

    def ghost_kill(self, m):
        """the ghost dies silently: no more heartbeats, joins or syncs; its session runs out"""
        if self.members.get(m.id) is not m:
            return False
        m.dead = True
        m.lazy = True
        self._arm_session(m)
        self.ghost_log.append((self.world.now, "kill", m.id))
        return True

    def pump(self):
        """let well-behaved ghosts react to the group's state until nothing changes"""
        if getattr(self, "_pumping", False):
            return
        self._pumping = True
        try:
            for _ in range(50):
                acted = False
                for m in list(self.members.values()):
                    if not m.ghost or m.dead or self.members.get(m.id) is not m:
                        continue
                    if self.state == PREPARING and m.join_cb is None and not m.lazy:
                        self.join(m.id, m.session_ms, m.ptype, m.protocols, self._ghost_join_cb(m))
                        acted = True
                    elif self.state == AWAITING_SYNC and m.ghost_state.get("need_sync") and m.sync_cb is None:
                        m.ghost_state["need_sync"] = False
                        code, generation, leader, member_id, members = m.ghost_state["last"]
                        assignments = []
                        if leader == m.id and self.assign_fn is not None:
                            assignments = list(self.assign_fn(self, members).items())
                        self.sync(m.id, generation, assignments, lambda code, a, m=m: m.ghost_state.__setitem__("assignment", (code, a)))
                        acted = True
                if not acted:
                    break
        finally:
            self._pumping = False

    def ghosts(self):
        return [m for m in self.members.values() if m.ghost]


# ---------------------------------------------------------------------------
# self check: a ghost-only rebalance script with the textbook outcome


def selfcheck():
    from . import simnet

    class _C(object):
        pass

    c = _C()
    c.world = simnet.World()
    g = Group(c, "g")
    g.assign_fn = lambda grp, members: dict((mid, b"A:" + mid.encode()) for mid, _ in members)
    a = g.ghost_add(6000, ["t"])
    assert g.state == STABLE and g.generation == 1 and g.leader == a.id, (g.state, g.generation)
    assert a.ghost_state["assignment"] == (0, b"A:" + a.id.encode())
    b = g.ghost_add(6000, ["t"])
    assert g.state == STABLE and g.generation == 2 and set(g.members) == {a.id, b.id}, (g.state, g.generation, list(g.members))
    assert g.heartbeat(a.id, 1) == E_ILLEGAL_GENERATION and g.heartbeat(a.id, 2) == 0 and g.heartbeat("nobody", 2) == E_UNKNOWN_MEMBER
    # a lazy ghost holds the rebalance until the timer removes it
    b.lazy = True
    c3 = g.ghost_add(6000, ["t"])
    assert g.state == PREPARING and g.generation == 2
    assert g.heartbeat(b.id, 2) == E_REBALANCE_IN_PROGRESS
    assert g.commit_check(2, b.id) == 0
    c.world.advance(6.001)
    assert g.state == STABLE and g.generation == 3 and set(g.members) == {a.id, c3.id}, (g.state, g.generation, list(g.members))
    assert g.commit_check(2, a.id) == E_ILLEGAL_GENERATION and g.commit_check(3, b.id) == E_UNKNOWN_MEMBER and g.commit_check(3, a.id) == 0
    # leader leaves: next member takes over
    assert g.leave(a.id) == 0
    assert g.state == STABLE and g.generation == 4 and g.leader == c3.id
    # a dead ghost expires after its session timeout and the group empties
    g.ghost_kill(c3)
    c.world.advance(6.001)
    assert g.state == EMPTY and g.generation == 5 and not g.members, (g.state, g.generation)
    assert g.commit_check(-1, "") == 0
    return True
