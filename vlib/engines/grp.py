"""Engine GRP: the real ConsumerGroup (Coordinator + per-partition Consumers) + KafkaClient on the simulated
cluster with the group-coordinator model (vlib/simgroup.py) and harness-driven ghost members.

Properties C16 (generation fencing) and C17 (always progressing toward stable membership).
Oracles observe: every request at write time (parsed by the independent strict parser), the outcome of every
group call (a pass-through callback on the Deferred the client returns to the coordinator code), every processor
entry, the model's own ledger (membership, generation, offset store) and virtual time.
"""
from hypothesis import strategies as st

from .. import refproto as rp
from .. import simgroup, simnet
from . import cl as _cl
from .base import Engine

GROUP = "g1"
WAITS = [0.05, 0.3, 1.1, 2.5, 7.0, 12.0, 36.0]
CONNECT_LATENCY = 0.005
JOIN_CODES = [27, 15, 16, 25, 22, 23, 14, 26, 1]
SYNC_CODES = [27, 22, 25, 16, 15, 14]
HB_CODES = [27, 22, 25, 15, 16, 14]
COMMIT_CODES = [25, 22, 27, 15, 16, 14, 12]
LIVES = [0.05, 0.2, 0.5, 1.2, 2.5, 6.0]  # "live": let the simulated world run (events and timers in time order) for so many virtual seconds
MD_CODES = [5, 3]  # topic-level metadata errors: LEADER_NOT_AVAILABLE, UNKNOWN_TOPIC_OR_PARTITION
APIS = ["join_group", "sync_group", "heartbeat", "offset_commit", "find_coordinator", "offset_fetch", "fetch"]
CODES = {"join_group": JOIN_CODES, "sync_group": SYNC_CODES, "heartbeat": HB_CODES, "offset_commit": COMMIT_CODES, "find_coordinator": [15, 16, 14],
         "offset_fetch": [14, 15, 16], "fetch": [3, 5, 6]}


def config_strategy():
    @st.composite
    def cfg(draw):
        nb = draw(st.integers(1, 2))
        ntop = draw(st.sampled_from([1, 1, 2]))
        topics = []
        for i in range(ntop):
            np_ = draw(st.integers(1, 3))
            topics.append({"name": "t%d" % i, "leaders": [draw(st.integers(1, nb)) for _ in range(np_)], "magic": draw(st.sampled_from([0, 1]))})
        return {
            "brokers": nb, "topics": topics, "timeout_ms": draw(st.sampled_from([3000, 10000])), "dot": draw(st.booleans()), "discovery": draw(st.sampled_from(["off", "on"])),
            "table": "dense", "pmax": 2, "fmax": 2, "bootstrap": [0], "rseed": draw(st.integers(0, 99)),
            "session_ms": draw(st.sampled_from([6000, 30000])), "heartbeat_ms": draw(st.sampled_from([1000, 2000])),
            "initial_backoff_ms": draw(st.sampled_from([300, 1000])), "retry_backoff_ms": 100, "fatal_backoff_ms": draw(st.sampled_from([1500, 10000])),
            "every_n": draw(st.sampled_from([0, 1, 3])), "every_ms": draw(st.sampled_from([0, 0, 500])),
            "max_wait_ms": draw(st.sampled_from([100, 500])),
            "ghosts": draw(st.sampled_from([0, 0, 1, 2])), "rot": draw(st.integers(0, 5)),
            # the member under test may subscribe to fewer topics than the ghosts (the leader then has to look up topics it does not consume)
            "my_ntopics": draw(st.integers(1, ntop)), "ghost_subs": draw(st.sampled_from(["all", "all", "mine"])),
            "initial": draw(st.integers(0, 4)),
            "procs": draw(st.lists(st.sampled_from(["sync_ok"] * 8 + ["async", "async", "sync_raise"]), max_size=10)),
            "md_order": draw(st.sampled_from(_cl.MD_ORDERS)),
        }

    return cfg()


class Inv(object):
    def __init__(self, no, tp, offsets, tick, era):
        self.no, self.tp, self.offsets, self.tick, self.era = no, tp, offsets, tick, era
        self.state = "running"
        self.d = None


class GRPEngine(Engine):
    NAME = "GRP"
    MACROS = ["stable", "stable", "rebalance", "rebalance", "evict", "commitreject", "joinfault", "syncfault", "coordfault", "netfault", "procfail", "stopmid", "leave", "lookupfault", "overlap"]
    MACRO_ONE_IN = 4

    @classmethod
    def config_strategy(cls):
        return config_strategy()

    def __init__(self, config, ctx, props=None):
        Engine.__init__(self, config, ctx, props)
        from afkak import ConsumerGroup

        simgroup_ok = getattr(GRPEngine, "_model_checked", False)
        if not simgroup_ok:
            simgroup.selfcheck()
            GRPEngine._model_checked = True
        self.world, self.cluster, self.client, _ = _cl.build(config)
        w, cl = self.world, self.cluster
        self.timeout = config["timeout_ms"] / 1000.0
        self.topics = [t["name"] for t in config["topics"]]
        self.my_topics = self.topics[:config.get("my_ntopics", len(self.topics))]
        self.ghost_topics = self.topics if config.get("ghost_subs", "all") == "all" else self.my_topics
        self.vno = 0
        for t in self.topics:
            for pid in sorted(cl.topics[t]):
                for _ in range(config["initial"]):
                    self._append(t, pid, 1)
        self.g = cl.group(GROUP)
        self.g.assign_fn = self._ghost_assign
        self.rot = config["rot"]
        self.tick = 0
        self.evseq = 0
        self.script = []
        self.nt = set()
        self.faults = 0
        self.fault_kinds = set()
        self.proc_stream = list(config["procs"])
        self.invocations = []
        self.calls = []  # group calls (join/sync/heartbeat/leave) and commit calls
        self.writes = []
        self.eras = []  # stable memberships of the afkak member as it knows them: one per successful SyncGroup
        self.joininfo = None  # latest successful JoinGroup result
        self.joining = False  # a JoinGroup has been written and no successful SyncGroup has completed since
        self.join_tick = None
        self.fenced = None  # (tick, why) of an eviction not yet followed by a successful sync
        self.started = False
        self.start_state = None
        self.stop_called_tick = None
        self.stop_fired_tick = None
        self.stop_state = None
        self.retriable = []  # delivered retriable failures awaiting the documented follow-up (C17.4)
        self.seen_frames = set()
        self._replies_seen = 0
        self._dot_checks = []
        self._retr_from = 0
        self._undelivered = []
        self.proc_error_tick = None
        self.start_watch = None
        self.stop_watch = None
        for _ in range(config["ghosts"]):
            self.g.ghost_add(config["session_ms"], self.ghost_topics)
        self._wrap_client()
        kw = dict(auto_commit_every_n=config["every_n"] or None, auto_commit_every_ms=config["every_ms"] or None, fetch_max_wait_time=config["max_wait_ms"],
                  request_retry_init_delay=0.1, request_retry_max_delay=1.0)
        self.cg = ConsumerGroup(self.client, GROUP, list(self.my_topics), self._processor, consumer_kwargs=kw, session_timeout_ms=config["session_ms"],
                                heartbeat_interval_ms=config["heartbeat_ms"], initial_backoff_ms=config["initial_backoff_ms"], retry_backoff_ms=config["retry_backoff_ms"],
                                fatal_backoff_ms=config["fatal_backoff_ms"])
        self.join_attempts = []  # virtual times at which join_and_sync() was invoked (scheduled rejoins go through the instance attribute)
        orig_jas = self.cg.join_and_sync

        def observed_join_and_sync(*a, **k):
            self.tick += 1
            self.join_attempts.append((self.tick, w.now))
            return orig_jas(*a, **k)

        self.cg.join_and_sync = observed_join_and_sync
        orig_oce = self.cg.on_consumer_error

        def observed_consumer_error(result):
            # a partition consumer reported a failure: the group schedules a rejoin with the backoff of its class (at most the fatal one)
            self.tick += 1
            self.retriable.append({"tick": self.tick, "time": w.now, "delay": self.config["fatal_backoff_ms"] / 1000.0, "class": "consumer-error", "kind": "consumer", "error": result.type.__name__, "checked": True})
            self.labels.add("consumer-error:%s" % result.type.__name__)
            return orig_oce(result)

        self.cg.on_consumer_error = observed_consumer_error
        w.on_write = self._on_write

    # ------------------------------------------------------------------ cluster content / ghosts
    def _append(self, topic, pid, n):
        part = self.cluster.topics[topic][pid]
        for _ in range(n):
            self.vno += 1
            part.append([(None, b"v%d" % self.vno, 1000 + self.vno)], False, 0)

    def _ghost_assign(self, group, members):
        """a ghost leader deals the partitions of each subscribed topic round-robin over the sorted member ids, starting at a drawn rotation"""
        subs = {}
        for mid, meta in members:
            try:
                subs[mid] = rp.parse_subscription(meta)["topics"]
            except rp.GrammarError:
                subs[mid] = []
        ids = sorted(subs)
        out = dict((m, {}) for m in ids)
        k = self.rot
        for t in sorted(set(x for s in subs.values() for x in s)):
            if t not in self.cluster.topics:
                continue
            for pid in sorted(self.cluster.topics[t]):
                cands = [m for m in ids if t in subs[m]]
                m = cands[k % len(cands)]
                k += 1
                out[m].setdefault(t, []).append(pid)
        return dict((m, rp.encode_assignment(sorted(a.items()))) for m, a in out.items())

    # ------------------------------------------------------------------ observation: calls
    def _wrap_client(self):
        cli = self.client
        orig = cli._send_request_to_coordinator

        def wrapped(*a, **k):
            payload = a[1] if len(a) > 1 else k.get("payload")
            kind = {"_JoinGroupRequest": "join_group", "_SyncGroupRequest": "sync_group", "_HeartbeatRequest": "heartbeat", "_LeaveGroupRequest": "leave_group"}.get(type(payload).__name__, "other")
            self.tick += 1
            rec = {"kind": kind, "payload": payload, "tick": self.tick, "evseq": self.evseq, "time": self.world.now, "state": "pending", "result": None}
            if kind in ("join_group", "sync_group"):
                # C16 (5): at most one join/sync exchange in flight
                other = [c for c in self.calls if c["kind"] in ("join_group", "sync_group") and c["state"] == "pending"]
                if other:
                    self.note("C16.one-exchange", "C16.second-join-or-sync-in-flight", "%s issued at t=%.3f while the %s issued at t=%.3f is still pending" % (kind, self.world.now, other[0]["kind"], other[0]["time"]))
            self.calls.append(rec)
            d = orig(*a, **k)
            d.addBoth(self._call_done, rec)
            return d

        cli._send_request_to_coordinator = wrapped
        orig_commit = cli.send_offset_commit_request

        def wrapped_commit(*a, **k):
            self.tick += 1
            payloads = a[1] if len(a) > 1 else k.get("payloads")
            rec = {"kind": "offset_commit", "tick": self.tick, "evseq": self.evseq, "time": self.world.now, "state": "pending", "result": None,
                   "tps": [(p.topic, p.partition, p.offset) for p in payloads], "era": self.eras[-1] if self.eras else None}
            self.calls.append(rec)
            d = orig_commit(*a, **k)
            d.addBoth(self._call_done, rec)
            return d

        cli.send_offset_commit_request = wrapped_commit

    def _call_done(self, result, rec):
        """runs first in the callback chain of a group call (record only; the verdicts are drawn after the event)"""
        from twisted.python.failure import Failure

        from afkak.common import IllegalGeneration, RequestTimedOutError, UnknownMemberId

        self.tick += 1
        rec["done_tick"] = self.tick
        rec["done_time"] = self.world.now
        rec["result"] = result
        if isinstance(result, Failure):
            rec["state"] = "err"
            rec["error"] = result.type.__name__
            kind = rec["kind"]
            evicting = result.check(IllegalGeneration, UnknownMemberId) or (kind != "offset_commit" and result.check(RequestTimedOutError))
            if evicting and not (self.stop_called_tick is not None):
                if self.eras and self.eras[-1].get("ended") is None:
                    self.eras[-1]["ended"] = ("evicted", self.tick)
                    self.eras[-1]["evicted"] = True
                    self.nt.add("evicted-while-consuming" if self.eras[-1]["assignment"] else "evicted")
                if self.fenced is None:
                    self.fenced = (self.tick, "%s failed with %s" % (kind, result.type.__name__))
            if kind == "heartbeat" and self.eras and self.eras[-1].get("ended") is None:
                self.eras[-1]["ended"] = ("heartbeat-failed", self.tick)
            if kind in ("join_group", "sync_group", "heartbeat"):
                self._retriable_seen(rec, result)
            if result.check(RequestTimedOutError) and kind in ("join_group", "sync_group", "heartbeat") and self.config["dot"]:
                # C11 (last sentence), judged after the event: the silent connection that carried the request is dropped
                ws = [x for x in self.writes[-80:] if x["api"] == kind and x["tick"] > rec["tick"]]
                if ws:
                    self._dot_checks.append((kind, rec["time"], ws[-1]["conn"]))
            if result.check(RequestTimedOutError) and kind in ("join_group", "sync_group", "heartbeat"):
                # C11: a group request resolves no earlier than the configured timeout - the stated longer minimum (35 s) for joins -
                # when no reply arrived (measured from the call, which is not later than the request)
                m = max(self.timeout, 35.0) if kind == "join_group" else self.timeout
                self.nt.add("group-request-timed-out")
                if self.world.now - rec["time"] < m - 1e-6:
                    self.note("C11.bounded", "C11.timed-out-early/%s" % kind, "%s issued at t=%.3f failed as timed out at t=%.3f, %.3fs later; the timeout is %.3fs%s" % (
                        kind, rec["time"], self.world.now, self.world.now - rec["time"], m, " (client timeout %.1fs, minimum for joins 35 s)" % self.timeout if kind == "join_group" else ""))
        else:
            rec["state"] = "ok"
            if rec["kind"] == "join_group" and getattr(result, "error", 0) == 0:
                self.joininfo = {"generation": result.generation_id, "member": result.member_id, "leader": result.leader_id, "tick": self.tick,
                                 "members": [(m.member_id, m.member_metadata) for m in (result.members or [])]}
                if result.leader_id == result.member_id:
                    self.labels.add("afkak-member-is-leader")
                else:
                    self.labels.add("afkak-member-is-follower")
            elif rec["kind"] == "sync_group":
                self._era_begins(rec, result)
            elif rec["kind"] == "heartbeat":
                if self.eras:
                    self.eras[-1]["heartbeats_ok"] = self.eras[-1].get("heartbeats_ok", 0) + 1
        return result

    def _era_begins(self, rec, result):
        try:
            parsed = rp.parse_assignment(result.member_assignment)["assignment"] if result.member_assignment else []
        except rp.GrammarError as e:
            self.labels.add("assignment-unparsable")
            parsed = []
            _ = e
        assignment = set((t, p) for t, ps in parsed for p in ps)
        ji = self.joininfo or {}
        era = {"no": len(self.eras), "generation": ji.get("generation"), "member": ji.get("member"), "assignment": assignment, "tick": self.tick, "time": self.world.now,
               "first_fetch": {}, "ended": None, "sync_generation": rec["payload"].generation_id, "seq0": self.cluster._seq}
        prev = self.eras[-1] if self.eras else None
        self.eras.append(era)
        self.joining = False
        self.fenced = None
        if prev is not None and prev["assignment"]:
            self.nt.add("second-generation-after-consuming")
            if prev["assignment"] != assignment:
                self.nt.add("assignment-changed-across-generations")

    def _retriable_seen(self, rec, result):
        """C17 (4) bookkeeping: a failure the documentation maps to a rejoin after a backoff"""
        from afkak.common import (CoordinatorNotAvailable, IllegalGeneration, InconsistentGroupProtocol, KafkaError, NotCoordinatorForConsumerError,
                                  RebalanceInProgress, RequestTimedOutError, UnknownMemberId)

        c = self.config
        if result.check(RebalanceInProgress, CoordinatorNotAvailable, NotCoordinatorForConsumerError, IllegalGeneration, UnknownMemberId):
            delay, cls = c["retry_backoff_ms"], "retry"
        elif result.check(InconsistentGroupProtocol, RequestTimedOutError):
            delay, cls = c["fatal_backoff_ms"], "fatal"
        elif result.check(KafkaError):
            delay, cls = c["fatal_backoff_ms"], "fatal"
        else:
            return
        if self.stop_called_tick is not None:
            return
        self.retriable.append({"tick": self.tick, "time": self.world.now, "delay": delay / 1000.0, "class": cls, "kind": rec["kind"], "error": result.type.__name__,
                               "faults_then": self.faults, "nwrites": len(self.writes), "nattempts": len(self.world.attempt_log), "checked": False})

    # ------------------------------------------------------------------ observation: processor
    def _processor(self, consumer, msgs):
        from twisted.internet import defer

        self.tick += 1
        tp = (consumer.topic, consumer.partition)
        era = self.eras[-1] if self.eras else None
        inv = Inv(len(self.invocations), tp, [m.offset for m in msgs], self.tick, era)
        inv.consumer = consumer
        self.invocations.append(inv)
        self._consumer_activity("processor entered for %s-%d offsets %r" % (tp[0], tp[1], inv.offsets[:3]), tp)
        mode = self.proc_stream.pop(0) if self.proc_stream else "sync_ok"
        inv.mode = mode
        if mode == "sync_raise":
            inv.state = "failed"
            self._proc_failed(inv)
            raise ValueError("processor failure #%d" % inv.no)
        if mode == "async":
            def cancelled(d):
                inv.state = "cancelled"

            inv.d = defer.Deferred(cancelled)
            return inv.d
        inv.state = "ok"
        return None

    def _proc_failed(self, inv):
        self.labels.add("processor-raised-non-kafka-error")
        era = self.eras[-1] if self.eras else None
        # clause C17 (3) is judged for a failure while the member is a stable member running that consumer; a consumer that is being shut
        # down for a rejoin (or has already reported another failure) cannot report through its start() Deferred again: statistic only
        # (whether that consumer can still report is read off its start Deferred - used only to decide applicability, never asserted on)
        sd = getattr(getattr(inv, "consumer", None), "_start_d", None)
        can_report = sd is not None and not sd.called
        stable = era is not None and inv.era is era and era.get("ended") is None and not self.joining
        if (stable or can_report) and self.stop_called_tick is None and self.proc_error_tick is None:
            self.proc_error_tick = self.tick
            if not stable:
                self.nt.add("processor-failed-while-consumers-shut-down-for-rejoin")
        else:
            self.labels.add("processor-failed-outside-stable-membership")

    def _consumer_activity(self, what, tp, resend=False):
        """C16 (1)(2)(3)(7): a partition consumer of the group did something observable"""
        if self.stop_fired_tick is not None:
            self.note("C16.after-stop", "C16.consumer-activity-after-stop", "%s after the Deferred returned by stop() had fired" % what)
            return
        if resend:
            return
        if self.joining:
            self.note("C16.no-consumer-during-rejoin", "C16.activity-during-rejoin", "%s after this member wrote a JoinGroup and before the SyncGroup of that exchange succeeded" % what)
            return
        if self.fenced is not None:
            # the property demands that evicted consumers are stopped "before any rejoin" (the clause above); what they do
            # between the evicting answer and the JoinGroup (e.g. one more commit attempt while shutting down) is a statistic
            self.labels.add("consumer-activity-between-eviction-and-rejoin")
            return
        era = self.eras[-1] if self.eras else None
        if era is None:
            self.note("C16.only-assigned", "C16.activity-without-membership", "%s before this member ever completed a join/sync" % what)
            return
        if tp is not None and tp not in era["assignment"]:
            self.note("C16.only-assigned", "C16.activity-for-unassigned-partition", "%s but the current assignment (generation %r) is %r" % (what, era["generation"], sorted(era["assignment"])))

    # ------------------------------------------------------------------ observation: writes
    def _on_write(self, conn, frame):
        try:
            req = rp.parse_request(frame)
        except rp.GrammarError as e:
            self.note("C04.grammar", "C04.grammar/group-end-to-end", "the group member wrote a request the strict parser rejects: %s" % e)
            return
        api = req["api"]
        self.tick += 1
        rec = {"tick": self.tick, "evseq": self.evseq, "time": self.world.now, "api": api, "req": req, "corr": req["correlation_id"], "conn": conn}
        if frame in self.seen_frames:
            rec["resend"] = True
        self.seen_frames.add(frame)
        self.writes.append(rec)
        resend = rec.get("resend", False)
        if api in ("join_group", "sync_group", "heartbeat"):
            if self.stop_fired_tick is not None and not resend:
                self.note("C16.after-stop", "C16.group-request-after-stop", "%s written after the Deferred returned by stop() had fired" % api)
            elif self.stop_called_tick is not None and not resend:
                self.labels.add("new-%s-between-stop-call-and-completion" % api)
        if api == "sync_group" and not resend and req["assignments"]:
            self._check_leader_assignment(req)
        if api == "join_group" and not resend:
            era = self.eras[-1] if self.eras else None
            if not self.joining:
                self.joining = True
                self.join_tick = self.tick
                if era is not None and era.get("join_checked") is None:
                    era["join_checked"] = True
                    if era.get("ended") is None:
                        era["ended"] = ("rejoin", self.tick)
                    self._check_commits_before_join(era)
            if req["member_id"] and self.joininfo and req["member_id"] != self.joininfo["member"]:
                self.labels.add("join-with-older-member-id")
        elif api == "heartbeat" and not resend:
            era = self.eras[-1] if self.eras else None
            if era is None or self.joining or era.get("ended") is not None:
                why = "before any successful sync" if era is None else "after a JoinGroup was written" if self.joining else "after its membership ended (%s)" % (era["ended"][0],)
                self.note("C16.heartbeat-only-stable", "C16.heartbeat-outside-stable-membership", "Heartbeat (generation %r) written %s" % (req["generation"], why))
            elif (req["generation"], req["member_id"]) != (era["generation"], era["member"]):
                self.note("C16.heartbeat-only-stable", "C16.heartbeat-identity", "Heartbeat names generation %r member %r; the current membership is generation %r member %r" % (req["generation"], req["member_id"], era["generation"], era["member"]))
            else:
                self.labels.add("heartbeat-sent")
        elif api in ("fetch", "list_offsets"):
            for t in req["topics"]:
                for pp in t["partitions"]:
                    tp = (t["topic"], pp["partition"])
                    if t["topic"] not in self.topics:
                        continue
                    self._consumer_activity("%s written for %s-%d" % (api, tp[0], tp[1]), tp, resend)
                    if api == "fetch" and not resend and self.eras:
                        self._first_fetch(self.eras[-1], tp, pp["offset"], rec)
        elif api in ("offset_fetch", "offset_commit") and req.get("group") == GROUP:
            for t in req["topics"]:
                for pp in t["partitions"]:
                    tp = (t["topic"], pp["partition"])
                    self._consumer_activity("%s written for %s-%d" % (api, tp[0], tp[1]), tp, resend)
            if api == "offset_commit" and not resend:
                ji = self.joininfo or {}
                if (req["generation"], req["member_id"]) != (ji.get("generation"), ji.get("member")):
                    self.note("C16.commit-identity", "C16.commit-with-stale-identity", "OffsetCommit carries generation %r member %r; the latest successful join gave generation %r member %r" % (
                        req["generation"], req["member_id"], ji.get("generation"), ji.get("member")))
                else:
                    self.labels.add("commit-with-current-identity")

    def _check_leader_assignment(self, req):
        """C15 through the leader path of the real Coordinator: the assignment this member sends as leader, against the member list the
        coordinator model handed it (subscriptions parsed independently) and the cluster's partitions"""
        ji = self.joininfo or {}
        if ji.get("generation") != req["generation"] or ji.get("leader") != ji.get("member"):
            return
        subs = {}
        for mid, meta in ji.get("members", []):
            try:
                subs[mid] = set(rp.parse_subscription(meta)["topics"])
            except rp.GrammarError:
                return
        got = {}
        for a in req["assignments"]:
            try:
                parsed = rp.parse_assignment(a["assignment"])["assignment"]
            except rp.GrammarError as e:
                self.note("C15.decodable", "C15.leader-path/assignment-unparsable", "assignment sent for %r does not parse: %s" % (a["member_id"], e))
                return
            got[a["member_id"]] = set((t, p) for t, ps in parsed for p in ps)
            if sum(len(ps) for _, ps in parsed) != len(got[a["member_id"]]):
                self.note("C15.exactly-one-owner", "C15.leader-path/partition-listed-twice", "member %r is given a partition twice: %r" % (a["member_id"], parsed))
        self.nt.add("leader-assignment-checked")
        if len(set(frozenset(x) for x in subs.values())) > 1:
            self.nt.add("leader-assignment-with-differing-subscriptions")
        if set(got) != set(subs):
            self.note("C15.every-member", "C15.leader-path/member-set-differs", "the leader's SyncGroup lists members %r; the JoinGroup reply it was given lists %r" % (sorted(got), sorted(subs)))
            return
        wanted = set((t, p) for t in set().union(*subs.values()) if t in self.cluster.topics for p in self.cluster.topics[t])
        owners = {}
        for mid, tps in got.items():
            for tp in tps:
                owners.setdefault(tp, []).append(mid)
                if tp[0] not in subs[mid]:
                    self.note("C15.only-subscribers", "C15.leader-path/assigned-to-non-subscriber", "%s-%d assigned to %r which subscribes to %r" % (tp[0], tp[1], mid, sorted(subs[mid])))
        dup = sorted(tp for tp, o in owners.items() if len(o) > 1)
        missing = sorted(wanted - set(owners))
        extra = sorted(set(owners) - wanted)
        if dup:
            self.note("C15.exactly-one-owner", "C15.leader-path/partition-with-two-owners", "partitions %r have more than one owner: %r" % (dup[:4], [owners[x] for x in dup[:4]]))
        if missing:
            self.note("C15.exactly-one-owner", "C15.leader-path/partition-without-owner", "partitions %r of subscribed topics have no owner (assignment %r)" % (missing[:6], dict((k, sorted(v)) for k, v in got.items())))
        if extra:
            self.note("C15.exactly-one-owner", "C15.leader-path/unknown-partition-assigned", "partitions %r are not partitions of a subscribed topic" % (extra[:6],))
        if len(set(frozenset(x) for x in subs.values())) == 1 and got:
            sizes = [len(v) for v in got.values()]
            if max(sizes) - min(sizes) > 1:
                self.note("C15.balanced", "C15.leader-path/unbalanced", "identical subscriptions but assignment sizes %r" % (sorted(sizes),))

    def _first_fetch(self, era, tp, offset, rec):
        if tp in era["first_fetch"] or tp not in era["assignment"]:
            return
        era["first_fetch"][tp] = offset
        # the position must come from the group's committed offset as delivered to this member in this era (or the reset answer when none is stored)
        stored = None
        for r in reversed(self.cluster.requests):
            if r["seq"] <= era.get("seq0", 0):
                break
            if r["req"]["api"] == "offset_fetch" and r["reply"].get("conn") is not None and self.cluster.delivered(r["reply"]) and tp in r["reply"].get("offsets", {}):
                code, off = r["reply"]["offsets"][tp]
                if code == 0:
                    stored = off
                    break
        if stored is None:
            self.labels.add("first-fetch-without-offset-fetch-answer")
            self.note("C16.start-from-committed", "C16.first-fetch-without-committed-position", "first Fetch for %s-%d in generation %r (offset %d) was written without a successful OffsetFetch answer in this generation" % (tp[0], tp[1], era["generation"], offset))
            return
        if stored >= 0:
            self.nt.add("resumed-from-group-offset") if era["no"] > 0 else None
            if offset != stored + 1:
                self.note("C16.start-from-committed", "C16.first-fetch-not-at-committed-position", "first Fetch for %s-%d in generation %r asks for offset %d; the group's committed offset delivered to the member is %d" % (tp[0], tp[1], era["generation"], offset, stored))
        else:
            part = self.cluster.topics[tp[0]][tp[1]]
            if not (part.log_start <= offset <= part.log_end):
                self.note("C16.start-from-committed", "C16.first-fetch-not-at-reset-position", "first Fetch for %s-%d asks for offset %d with nothing committed; the log spans %d..%d" % (tp[0], tp[1], offset, part.log_start, part.log_end))

    def _check_commits_before_join(self, era):
        """C16 (1b): before rejoining, the progress of the previous generation's consumers has been committed (unless the coordinator rejected it)"""
        if era.get("evicted") or not era["assignment"]:
            return
        mine = [c for c in self.calls if c["kind"] == "offset_commit" and c.get("era") is era]
        trouble = [c for c in mine if c["state"] != "ok"]
        invs = [i for i in self.invocations if i.era is era]
        if any(i.state in ("failed", "cancelled", "running") for i in invs):
            return
        if trouble or self.stop_called_tick is not None:
            self.labels.add("rejoin-with-commit-trouble")
            return
        for tp in sorted(era["assignment"]):
            done = [i for i in invs if i.tp == tp and i.state == "ok"]
            if not done:
                continue
            last = done[-1].offsets[-1]
            stored = self.cluster.offsets.get((GROUP, tp[0], tp[1]), (-1, b""))[0]
            self.nt.add("progress-committed-before-rejoin")
            if stored != last:
                self.note("C16.commit-before-rejoin", "C16.rejoin-without-committing-progress", "JoinGroup written while %s-%d was processed up to offset %d in generation %r but the group's offset store holds %d (no commit was rejected or lost)" % (
                    tp[0], tp[1], last, era["generation"], stored))

    # ------------------------------------------------------------------ generator
    def _macro(self, draw):
        kind = draw(st.sampled_from(self.MACROS))
        b = draw(st.integers(1, self.config["brokers"]))
        t = draw(st.sampled_from(self.topics))
        app = ["append", t, draw(st.integers(0, 2)), draw(st.integers(1, 4))]
        up = [["start"], ["run", 60], ["wait", 1], ["run", 40]]
        if self.started:
            up = [["run", 30]]
        if kind == "stable":
            return up + [app, ["wait", draw(st.integers(0, 3))], ["run", 40], ["wait", 2], ["run", 30]]
        if kind == "rebalance":
            return up + [app, ["run", 30], ["ghost_add", draw(st.booleans())], ["wait", draw(st.integers(1, 3))], ["run", 60], ["wait", 2], ["run", 60], app, ["wait", 1], ["run", 40]]
        if kind == "evict":
            return up + [app, ["run", 30], ["err", b, "heartbeat", draw(st.sampled_from([22, 25, 27, 16])), 1], ["wait", 3], ["run", 60], ["wait", 2], ["run", 60]]
        if kind == "commitreject":
            return up + [["err", b, "offset_commit", draw(st.sampled_from([25, 22, 27])), draw(st.integers(1, 2))], app, ["wait", 1], ["run", 40], ["ghost_add", False], ["wait", 3], ["run", 60], ["wait", 2], ["run", 40]]
        if kind == "joinfault":
            return [["err", b, "join_group", draw(st.sampled_from(JOIN_CODES)), draw(st.integers(1, 2))]] + up + [["wait", 3], ["run", 60], ["wait", 5], ["run", 60]]
        if kind == "syncfault":
            return [["err", b, "sync_group", draw(st.sampled_from(SYNC_CODES)), 1]] + up + [["wait", 3], ["run", 60], ["wait", 5], ["run", 60]]
        if kind == "coordfault":
            return [["err", b, "find_coordinator", draw(st.sampled_from([15, 16])), draw(st.integers(1, 2))]] + up + [["coord", b], ["wait", 3], ["run", 60], ["wait", 4], ["run", 60]]
        if kind == "netfault":
            f = draw(st.sampled_from(["hold", "hold", "drop", "down"]))
            fault = ["hold", b, draw(st.sampled_from(["metadata", "join_group", "sync_group", "heartbeat"]))] if f == "hold" else [f, b]
            return up + [fault, ["ghost_add", False], ["wait", 3], ["run", 40], ["wait", 6], ["run", 40], ["up", b], ["wait", 6], ["run", 60]]
        if kind == "procfail":
            return up + [["procmode", "sync_raise"], app, ["wait", 1], ["run", 60], ["wait", 2], ["run", 40]]
        if kind == "leave":
            return up + [["ghost_add", False], ["wait", 2], ["run", 60], ["ghost_leave", 0], ["wait", 3], ["run", 60]]
        if kind == "overlap":
            # two independent reasons to rejoin overlap: a heartbeat whose error answer is delivered late (held), a commit the coordinator
            # rejects, optionally a JoinGroup error and a failing coordinator lookup (whose retry timer is then pending), while the next
            # JoinGroup may be left unanswered for a while - at most one exchange may be in flight whatever fires when
            steps = up + [["live", 3], ["err", b, "heartbeat", draw(st.sampled_from([27, 22, 25, 16])), 1], ["hold", b, "heartbeat"], ["liveto", "heartbeat", 4], ["live", 0]]
            if draw(st.integers(0, 2)):
                steps.append(["err", b, "join_group", draw(st.sampled_from([16, 16, 15, 27, 25])), 1])
            lookup = draw(st.integers(0, 3)) > 0
            if lookup:
                steps.append(["err", b, "find_coordinator", draw(st.sampled_from([15, 15, 16])), draw(st.integers(1, 2))])
            steps += [["err", b, "offset_commit", draw(st.sampled_from([25, 22, 27])), 1], app, ["liveto", "offset_commit", 3], ["live", 0]]
            if lookup:
                steps += [["liveto", "find_coordinator", 3], ["live", 0]]
            if draw(st.integers(0, 3)):
                steps.append(["hold", b, "join_group"])
            steps += [["release", 0], ["live", draw(st.integers(1, 4))], ["release", 0], ["live", 4], ["live", 5]]
            return steps
        if kind == "lookupfault":
            # a topic is in a transient metadata error state (being created, leader election) while the member joins or rejoins: as
            # leader it has to look the partitions of every subscribed topic up between JoinGroup and SyncGroup
            code = draw(st.sampled_from(MD_CODES))
            ti = draw(st.integers(0, 3))
            fault = ["mderr", ti, code] if draw(st.integers(0, 2)) else ["noleader", ti, draw(st.integers(0, 3))]
            heal = [["wait", draw(st.integers(0, 3))], ["run", 40], ["mderr", ti, 0], ["run", 60], ["wait", 3], ["run", 60], ["wait", 5], ["run", 60]]
            if not self.started:
                return [["start"], ["run", draw(st.integers(0, 20))], fault, ["run", 40]] + heal
            return up + [fault, ["ghost_add", False], ["wait", draw(st.integers(1, 3))], ["run", 60]] + heal
        # stopmid: stop() while stable, inside the first join/sync exchange, or inside a rebalance (any request of it may be in flight)
        where = draw(st.sampled_from(["stable", "join", "rebalance"]))
        tail = [["stop"], ["run", 60], ["wait", 2], ["run", 60], ["wait", 2], ["run", 30]]
        # ... either after some number of events or right after a chosen request of the exchange has been written
        api = draw(st.sampled_from([None, "find_coordinator", "join_group", "sync_group", "sync_group", "metadata"]))
        mid = [["run", draw(st.integers(0, 24))]] if api is None else [["runto", api, 60, draw(st.integers(0, 2))]]
        if where == "join" and not self.started:
            return [["start"]] + mid + tail
        if where == "rebalance":
            return up + [app, ["run", 30], ["ghost_add", False], ["wait", draw(st.integers(1, 3))]] + mid + tail
        return up + [app, ["run", draw(st.integers(0, 30))]] + tail

    def draw_step(self, draw):
        w = self.world
        if self.script:
            return self.script.pop(0)
        if draw(st.integers(0, self.MACRO_ONE_IN - 1)) == 0:
            self.script = self._macro(draw)
            return self.script.pop(0)
        ops = []
        if not self.started:
            ops += ["start"] * 6
        elif self.stop_called_tick is None:
            ops += ["stop"]
        if any(i.state == "running" and i.d is not None for i in self.invocations):
            ops += ["proc"] * 3
        ops += ["append", "append", "ghost_add", "ghost_leave", "ghost_kill", "ghost_rejoin", "rot"]
        if w.pending():
            ops += ["run"] * 10 + ["ev"]
        if w.next_timer() is not None:
            ops += ["timer", "timer", "wait", "wait", "live", "live"]
        ops += ["err", "err", "hold", "coord", "down", "up", "leader", "mderr", "noleader"]
        if self.cluster.held:
            ops += ["release", "release"]
        if w.live_conns():
            ops += ["drop"]
        op = draw(st.sampled_from(ops))
        nb = self.config["brokers"]
        if op == "proc":
            return ["proc", draw(st.integers(0, 3)), draw(st.sampled_from([True, True, True, False]))]
        if op == "append":
            return ["append", draw(st.sampled_from(self.topics)), draw(st.integers(0, 2)), draw(st.integers(1, 4))]
        if op == "ghost_add":
            return ["ghost_add", draw(st.sampled_from([False, False, True]))]
        if op in ("ghost_leave", "ghost_kill", "ghost_rejoin"):
            return [op, draw(st.integers(0, 3))]
        if op == "rot":
            return ["rot", draw(st.integers(0, 5))]
        if op == "live":
            return ["live", draw(st.integers(0, len(LIVES) - 1))]
        if op == "run":
            return ["run", draw(st.integers(1, 25))]
        if op == "ev":
            return ["ev", draw(st.sampled_from(["srv", "dlv", "lost", "connect"])), draw(st.integers(0, 5))]
        if op == "wait":
            return ["wait", draw(st.integers(0, len(WAITS) - 1))]
        if op == "err":
            api = draw(st.sampled_from(APIS))
            return ["err", draw(st.integers(1, nb)), api, draw(st.sampled_from(CODES[api])), draw(st.integers(1, 3))]
        if op == "mderr":
            return ["mderr", draw(st.integers(0, 3)), draw(st.sampled_from(MD_CODES + [0, 0]))]
        if op == "noleader":
            return ["noleader", draw(st.integers(0, 3)), draw(st.integers(0, 3))]
        if op == "hold":
            return ["hold", draw(st.integers(1, nb)), draw(st.sampled_from(["join_group", "sync_group", "heartbeat", "offset_commit", "metadata", "find_coordinator", "offset_fetch", "leave_group"]))]
        if op == "release":
            return ["release", draw(st.integers(0, 4))]
        if op == "drop":
            return ["drop", draw(st.integers(0, 5))]
        if op in ("down", "up", "coord", "leader"):
            return [op, draw(st.integers(1, nb))]
        return [op]

    # ------------------------------------------------------------------ ops
    def do(self, step):
        w, cl = self.world, self.cluster
        op = step[0]
        if op == "start":
            if self.started:
                return
            self.started = True
            self.evseq += 1
            try:
                d = self.cg.start()
            except Exception as e:  # noqa
                self.note("C17.start", "C17.start-raised/%s" % type(e).__name__, "ConsumerGroup.start() raised %r" % e)
                return
            self.start_watch = simnet.Watch(d, w, "group-start")
            self.start_watch.silence()
            self._after_event()
        elif op == "stop":
            if not self.started or self.stop_called_tick is not None or self.start_watch.state != "pending":
                return
            if any(i.state == "failed" for i in self.invocations):
                return  # the group is stopping itself after the processor's failure: a second stop() is documented to raise RestopError
            self._stop()
        elif op == "proc":
            pend = [i for i in self.invocations if i.state == "running" and i.d is not None]
            if not pend:
                return
            inv = pend[step[1] % len(pend)]
            self.evseq += 1
            if step[2]:
                inv.state = "ok"
                inv.d.callback(None)
            else:
                inv.state = "failed"
                self._proc_failed(inv)
                inv.d.errback(ValueError("async processor failure #%d" % inv.no))
            self._after_event()
        elif op == "procmode":
            self.proc_stream.insert(0, step[1])
        elif op == "append":
            t = step[1]
            pid = step[2] % len(cl.topics[t])
            self._append(t, pid, step[3])
        elif op == "ghost_add":
            if len(self.g.ghosts()) < 3:
                self.g.ghost_add(self.config["session_ms"], self.ghost_topics, lazy=bool(step[1]))
                self.labels.add("ghost-joined" + ("-lazy" if step[1] else ""))
                self.evseq += 1
                self._after_event()
        elif op in ("ghost_leave", "ghost_kill", "ghost_rejoin"):
            gs = self.g.ghosts()
            if gs:
                m = gs[step[1] % len(gs)]
                if op == "ghost_leave":
                    self.g.leave(m.id)
                    self.labels.add("ghost-left")
                elif op == "ghost_kill":
                    self.g.ghost_kill(m)
                    self.labels.add("ghost-died")
                else:
                    self.g.ghost_rejoin(m)
                self.evseq += 1
                self._after_event()
        elif op == "rot":
            self.rot = step[1]
        elif op == "run":
            for _ in range(step[1]):
                p = w.pending()
                if not p:
                    break
                self._process(p[0])
        elif op == "live":
            self._live(LIVES[step[1] % len(LIVES)])
        elif op == "liveto":
            n0 = len(self.writes)
            self._live(LIVES[step[2] % len(LIVES)], until=lambda: any(x["api"] == step[1] and not x.get("resend") for x in self.writes[n0:]))
        elif op == "runto":
            # deliver pending events until the member has written a new request of the given kind (then `extra` more events)
            n0 = len(self.writes)
            for _ in range(step[2]):
                if any(x["api"] == step[1] and not x.get("resend") for x in self.writes[n0:]):
                    break
                p = w.pending()
                if not p:
                    break
                self._process(p[0])
            else:
                return
            for _ in range(step[3]):
                p = w.pending()
                if not p:
                    break
                self._process(p[0])
        elif op == "ev":
            p = w.pending(step[1])
            if p:
                self._process(p[step[2] % len(p)])
        elif op == "timer":
            self._timer()
        elif op == "wait":
            target = w.now + WAITS[step[1] % len(WAITS)]
            n = 0
            while n < 400:
                nt = w.next_timer()
                if nt is None or nt[0] > target:
                    break
                self._timer()
                n += 1
            if n < 400:
                w.set_time(target)
        elif op == "err":
            cl.override(step[1], step[2], step[3], step[4])
            self._fault("%s-error" % step[2])
        elif op == "mderr":
            names = sorted(cl.topics)
            t = names[step[1] % len(names)]
            if step[2]:
                cl.topic_errors[t] = step[2]
                self._fault("topic-metadata-error")
            else:
                cl.topic_errors.pop(t, None)
        elif op == "noleader":
            # one partition is between leaders (election in progress): metadata lists it with leader -1 until the faults are lifted
            names = sorted(cl.topics)
            parts = cl.topics[names[step[1] % len(names)]]
            parts[sorted(parts)[step[2] % len(parts)]].leader = -1
            self._fault("partition-without-leader")
        elif op == "hold":
            cl.hold(step[1], step[2], 1)
            self._fault("held-%s-reply" % step[2])
        elif op == "release":
            cl.release(step[1])
        elif op == "drop":
            lc = w.live_conns()
            if lc:
                lc[step[1] % len(lc)].drop()
                self._fault("drop")
        elif op == "down":
            cl.broker_down(step[1])
            ups = [n for n, b in cl.brokers.items() if b.up]
            if ups:
                for parts in cl.topics.values():
                    for p in parts.values():
                        if p.leader == -1:
                            p.leader = ups[0]
            self._fault("broker-down")
        elif op == "up":
            cl.broker_up(step[1])
            for parts in cl.topics.values():
                for p in parts.values():
                    if p.leader == -1:
                        p.leader = step[1]
        elif op == "leader":
            if cl.brokers[step[1]].up:
                for parts in cl.topics.values():
                    for p in parts.values():
                        p.leader = step[1]
                self._fault("leader-move")
        elif op == "coord":
            if cl.brokers[step[1]].up:
                cl.coordinators[GROUP] = step[1]
                self._fault("coordinator-move")

    def _fault(self, kind):
        self.faults += 1
        self.fault_kinds.add(kind)
        self.labels.add("fault:" + kind)

    def _stop(self):
        w = self.world
        self.evseq += 1
        self.tick += 1
        self.stop_called_tick = self.tick
        self.stop_time = w.now
        if self.joining:
            self.nt.add("stop-during-join")
        elif self.eras and self.eras[-1].get("ended") is None:
            self.nt.add("stop-while-stable")
        try:
            d = self.cg.stop()
        except Exception as e:  # noqa
            self.note("C16.stop", "C16.stop-raised/%s" % type(e).__name__, "ConsumerGroup.stop() raised %r" % e)
            return
        self.stop_watch = simnet.Watch(d, w, "group-stop")
        self.stop_watch.silence()
        self._after_event()

    def _timer(self):
        self.evseq += 1
        self.world.fire_next_timer()
        self._after_event()

    def _process(self, ev, action=None):
        self.evseq += 1
        kind = ev.kind
        self.world.process(ev, action)
        self._after_event()
        if kind == "connect":
            target = self.world.now + CONNECT_LATENCY
            n = 0
            while n < 50:
                nt = self.world.next_timer()
                if nt is None or nt[0] > target:
                    break
                self._timer()
                n += 1
            self.world.set_time(target)

    # ------------------------------------------------------------------ oracles after every event
    def _after_event(self):
        w, cl = self.world, self.cluster
        undel = []
        for info in self._undelivered + cl.replies[self._replies_seen:]:
            if cl.delivered(info):
                info["deliv_tick"] = self.tick
                info["deliv_time"] = w.now
            elif not info["conn"].lost_delivered:
                undel.append(info)
        self._replies_seen = len(cl.replies)
        self._undelivered = undel
        if self.started and self.stop_fired_tick is None and getattr(self, "stop_watch", None) is not None and self.stop_watch.state != "pending":
            self.tick += 1
            self.stop_fired_tick = self.tick
            if self.stop_watch.state == "err":
                # not part of C16/C17 (e.g. RestopError when the group was already stopping itself after a processor failure): a statistic
                self.labels.add("stop-deferred-failed:%s" % self.stop_watch.value.type.__name__)
        self._check_backoffs()
        self._check_wedged()
        # C17 (2): no Kafka error ends the membership - every one of them leads to a rejoin; only a non-Kafka error (the processor's) surfaces
        if self.started and self.stop_called_tick is None and not getattr(self, "_term_checked", False) and self.start_watch.state != "pending":
            self._term_checked = True
            if self.start_watch.state == "err" and self.proc_error_tick is None and not any(i.state == "failed" for i in self.invocations):
                from afkak.common import KafkaError

                f = self.start_watch.value
                if f.check(KafkaError):
                    self.note("C17.backoff", "C17.member-terminated-by-kafka-error/%s" % f.type.__name__, "neither stop() was called nor did the processor fail, yet the Deferred returned by start() fired with the Kafka error %.160r: the member gave up instead of rejoining (faults so far: %s)" % (
                        f.value, sorted(self.fault_kinds)))
                else:
                    self.labels.add("start-deferred-failed-without-processor-failure:%s" % f.type.__name__)
        while self._dot_checks:
            kind, t0, conn = self._dot_checks.pop()
            if not conn.client_closed and not conn.dropped and not conn.lost_delivered and self.stop_called_tick is None:
                self.note("C11.disconnect-on-timeout", "C11.silent-connection-not-dropped/%s" % kind, "%s issued at t=%.3f timed out (disconnect_on_timeout=True) but the client did not drop the silent connection %r" % (kind, t0, conn))
            else:
                self.nt.add("silent-connection-dropped-at-group-timeout")
        # C11: ... and no later than that after its frame was written
        for c in self.calls:
            if c["state"] == "pending" and c["kind"] in ("join_group", "sync_group", "heartbeat") and not c.get("_late"):
                wr = c.get("first_write")
                if wr is None:
                    ws = [x for x in self.writes[-60:] if x["api"] == c["kind"] and x["tick"] > c["tick"] and not x.get("resend")]
                    if ws:
                        wr = c["first_write"] = ws[0]["time"]
                m = max(self.timeout, 35.0) if c["kind"] == "join_group" else self.timeout
                if wr is not None and w.now > wr + m + 1e-6:
                    c["_late"] = True
                    # C17: "timeout" is one of the retriable conditions that must lead to a rejoin - it has to be noticed first
                    self.note("C17.backoff", "C17.silent-%s-never-times-out" % c["kind"], "%s written at t=%.3f got no answer and is still pending at t=%.3f (timeout %.3fs): the member never notices the timeout, so no rejoin follows" % (c["kind"], wr, w.now, m))
                    self.note("C11.bounded", "C11.not-resolved-by-deadline/%s" % c["kind"], "%s written at t=%.3f is still pending at t=%.3f; the timeout is %.3fs" % (c["kind"], wr, w.now, m))

    def _check_backoffs(self):
        """C17 (4): after a delivered retriable failure of a group request the member attempts the rejoin no later than the documented
        backoff for its class (observed: invocation of the public join_and_sync(), which every scheduled rejoin goes through)."""
        w = self.world
        while self._retr_from < len(self.retriable) and self.retriable[self._retr_from]["checked"]:
            self._retr_from += 1
        for idx in range(self._retr_from, len(self.retriable)):
            r = self.retriable[idx]
            if r["checked"]:
                continue
            if self.stop_called_tick is not None or (self.started and self.start_watch.state != "pending") or any(i.state == "failed" for i in self.invocations):
                # stopped by the application, or stopping itself after a non-Kafka error: the scheduled rejoin is rightly cancelled
                r["checked"] = True
                continue
            later = [t for (tk, t) in self.join_attempts[-40:] if tk > r["tick"]]
            # an earlier failure whose (longer) backoff is still running keeps its schedule: the later one does not shorten it
            deadline = r["time"] + r["delay"]
            for x in self.retriable[max(0, idx - 8):idx]:
                if x["tick"] < r["tick"] and not any(x["tick"] < tk < r["tick"] for (tk, _) in self.join_attempts[-40:]):
                    deadline = max(deadline, x["time"] + x["delay"])
            r["delay"] = deadline - r["time"]
            if later:
                r["checked"] = True
                r["followup"] = later[0] - r["time"]
                self.nt.add("rejoin-after-%s-backoff" % r["class"])
                if later[0] > r["time"] + r["delay"] + 1e-6:
                    self.note("C17.backoff", "C17.rejoin-later-than-documented/%s" % r["class"], "%s failed with %s at t=%.3f; the documented %s backoff is %.3fs but join_and_sync() ran %.3fs later" % (
                        r["kind"], r["error"], r["time"], r["class"], r["delay"], later[0] - r["time"]))
            elif w.now > r["time"] + r["delay"] + 1e-6:
                r["checked"] = True
                self.note("C17.backoff", "C17.no-rejoin-after-retriable-error/%s" % r["class"], "%s failed with %s at t=%.3f; the documented %s backoff is %.3fs, now t=%.3f and join_and_sync() has not run" % (
                    r["kind"], r["error"], r["time"], r["class"], r["delay"], w.now))

    def _check_wedged(self):
        """C17 (1): a started, unstopped member whose start() Deferred has not fired must have something outstanding"""
        w = self.world
        if not self.started or self.stop_called_tick is not None or self.start_watch.state != "pending":
            return
        # timers of the simulation itself (session / rebalance / long-poll timers of the model) do not count: anything they could
        # deliver to the client belongs to a request the client still waits for, and that request has a client-side timeout timer
        if w.pending() or w.afkak_calls():
            return
        if any(i.state == "running" and i.d is not None for i in self.invocations):
            return  # waiting for the application's processor
        if self.cluster.held:
            return
        joins = [c for c in self.calls if c["kind"] == "join_group" and c["state"] == "ok" and getattr(c["result"], "leader_id", None) == getattr(c["result"], "member_id", 0)]
        if joins and not [c for c in self.calls if c["tick"] > joins[-1]["done_tick"] and c["kind"] in ("sync_group", "join_group")]:
            jc = joins[-1]
            self.note("C15.every-member", "C15.leader-path/leader-never-sent-assignment", "this member was elected leader of generation %r (%d members) at t=%.3f; it has not sent a SyncGroup with the assignment and nothing is outstanding any more (t=%.3f)" % (
                jc["result"].generation_id, len(getattr(jc["result"], "members", [])), jc["done_time"], w.now))
        self.note("C17.never-idle", "C17.wedged-nothing-outstanding", "the member is started, not stopped and its start() Deferred has not fired, yet no request, connection attempt or delayed call of the client is outstanding (t=%.3f): nothing can ever happen again" % w.now)

    # ------------------------------------------------------------------ quiet phase
    def _lift_faults(self):
        cl = self.cluster
        cl.topic_errors.clear()
        cl.overrides = []
        cl.holds = []
        for n in cl.brokers:
            if not cl.brokers[n].up:
                cl.broker_up(n)
            cl.refusing[n] = False
        ups = sorted(cl.brokers)
        for parts in cl.topics.values():
            for p in parts.values():
                if p.leader == -1:
                    p.leader = ups[0]
        while cl.held:
            cl.release(0)
        for m in self.g.ghosts():
            if not m.dead:
                m.lazy = False
        self.g.pump()
        self.proc_stream = []

    def _stable_now(self):
        """the model lists the member's current identity as a stable member of the current generation and has acknowledged a heartbeat of it in this generation"""
        era = self.eras[-1] if self.eras else None
        if era is None or era.get("ended") is not None or self.joining:
            return False
        g = self.g
        return g.state == simgroup.STABLE and era["member"] in g.members and era["generation"] == g.generation and era.get("heartbeats_ok", 0) > 0

    def _live(self, seconds, until=None):
        """let the world run: pending events and timers in time order, for `seconds` of virtual time or until `until()` holds"""
        w = self.world
        target = w.now + seconds
        if self._quiet(seconds, until=until, every=1) in ("horizon", "quiescent") and w.now < target:
            w.set_time(target)

    def _quiet(self, horizon_s, until=None, every=4):
        w = self.world
        horizon = w.now + horizon_s
        n = 0
        while n < 30000:
            if until is not None and n % every == 0 and until():
                return "done"
            p = w.pending()
            if p:
                self._process(p[0])
            else:
                pend = [i for i in self.invocations if i.state == "running" and i.d is not None]
                if pend:
                    self.evseq += 1
                    pend[0].state = "ok"
                    pend[0].d.callback(None)
                    self._after_event()
                else:
                    nt = w.next_timer()
                    if nt is None:
                        return "quiescent"
                    if nt[0] > horizon:
                        return "horizon"
                    self._timer()
            n += 1
            self.raise_noted()
        return "cap"

    def finish(self):
        w, cl, c = self.world, self.cluster, self.config
        self._lift_faults()
        horizon = 3 * (max(35.0, self.timeout) + c["fatal_backoff_ms"] / 1000.0 + c["session_ms"] / 1000.0) + 20.0
        alive = self.started and self.stop_called_tick is None and self.start_watch.state == "pending"
        failed_proc = self.proc_error_tick is not None
        if alive and not failed_proc and not any(i.state == "failed" for i in self.invocations):
            res = self._quiet(horizon, until=self._stable_now)
            if self.start_watch.state == "pending":
                if res != "done":
                    if res == "cap":
                        self.ctx.inconclusive += 1
                        self.labels.add("inconclusive-event-cap")
                    else:
                        g = self.g
                        era = self.eras[-1] if self.eras else None
                        self.note("C17.bounded-liveness", "C17.not-stable-after-faults-ceased", "faults ceased %.0f virtual seconds ago (%s) but the member is not a stable, heartbeating member: model state %s generation %d members %r; the member's last completed sync: %s; join in progress: %r" % (
                            horizon, res, g.state, g.generation, sorted(g.members), "generation %r as %r%s" % (era["generation"], era["member"], " (ended: %s)" % (era["ended"][0],) if era.get("ended") else "") if era else "none", self.joining))
                else:
                    if self.faults:
                        self.nt.add("stable-again-after-faults")
                    if len(self.fault_kinds) >= 2:
                        self.nt.add("stable-again-after-faults-at-two-steps")
                    # ... and its partitions are consumed again
                    era = self.eras[-1]
                    marks = {}
                    for tp in sorted(era["assignment"]):
                        self._append(tp[0], tp[1], 1)
                        marks[tp] = cl.topics[tp[0]][tp[1]].log_end - 1
                    if marks:
                        def consumed():
                            return all(any(i.tp == tp and off in i.offsets for i in self.invocations) for tp, off in marks.items()) or not self._stable_now()

                        res2 = self._quiet(horizon, until=consumed)
                        if res2 in ("horizon", "quiescent") and self._stable_now():
                            missing = [tp for tp, off in marks.items() if not any(i.tp == tp and off in i.offsets for i in self.invocations)]
                            if missing and not any(i.state == "failed" for i in self.invocations):
                                self.note("C17.bounded-liveness", "C17.assigned-partition-not-consumed", "the member is stable (generation %r) but a message appended to its partition %r %.0f virtual seconds ago never reached the processor" % (era["generation"], missing[0], horizon))
                        elif res2 == "done" and self._stable_now():
                            self.nt.add("consuming-after-quiet-phase")
        elif alive and failed_proc:
            # C17 (3): a non-Kafka error surfaces on the Deferred returned by start
            res = self._quiet(horizon, until=lambda: self.start_watch.state != "pending")
            if self.start_watch.state == "pending":
                if res == "cap":
                    self.ctx.inconclusive += 1
                else:
                    self.note("C17.non-kafka-error-surfaces", "C17.processor-error-not-reported", "the processor failed with ValueError %.0f virtual seconds ago but the Deferred returned by start() has not fired" % horizon)
            elif self.start_watch.state == "ok" or not self.start_watch.value.check(ValueError):
                self.note("C17.non-kafka-error-surfaces", "C17.processor-error-reported-differently", "the processor failed with ValueError; the Deferred returned by start() fired with %s %.100r" % (self.start_watch.state, self.start_watch.value))
            else:
                self.nt.add("non-kafka-error-surfaced")
        # C15 leader path: every join this member won as leader is followed by its SyncGroup (carrying the assignment) or by another attempt
        if self.started and self.stop_called_tick is None and self.start_watch.state == "pending" and not any(i.state == "failed" for i in self.invocations) and not self.cluster.held:
            joins = [c for c in self.calls if c["kind"] == "join_group" and c["state"] == "ok" and getattr(c["result"], "leader_id", None) == getattr(c["result"], "member_id", 0)]
            for jc in joins:
                after = [c for c in self.calls if c["tick"] > jc["done_tick"] and c["kind"] in ("sync_group", "join_group")]
                if not after and "inconclusive-event-cap" not in self.labels:
                    self.note("C15.every-member", "C15.leader-path/leader-never-sent-assignment", "this member was elected leader of generation %r (%d members) at t=%.3f but, %.0f virtual seconds after all faults ceased, has neither sent a SyncGroup with the assignment nor tried again" % (
                        jc["result"].generation_id, len(getattr(jc["result"], "members", [])), jc["done_time"], self.world.now - jc["done_time"]))
        # stop and make sure nothing remains
        if self.started and self.stop_called_tick is None and self.start_watch.state == "pending":
            self._stop()
            self.raise_noted()
        res = self._quiet(horizon)
        if self.started and self.stop_called_tick is not None and getattr(self, "stop_watch", None) is not None:
            if self.stop_watch.state == "pending":
                if res in ("quiescent", "horizon"):
                    self.note("C16.stop", "C16.stop-never-completed", "the Deferred returned by stop() has not fired %.0f virtual seconds after the call with all faults lifted" % horizon)
            elif res == "horizon":
                left = [d for d in w.afkak_calls()]
                if left:
                    self.note("C16.after-stop", "C16.timers-left-after-stop", "delayed calls still active long after stop() completed: %r" % [repr(d)[:90] for d in left[:3]])
        if cl.grammar_errors:
            self.note("C04.grammar", "C04.grammar/group-end-to-end", "request rejected by the strict parser: %s" % cl.grammar_errors[0]["error"])
        self.labels |= set("nt:" + x for x in self.nt)
        self.obs = {"eras": len(self.eras), "invocations": len(self.invocations), "generation_in_model": self.g.generation, "faults": self.faults,
                    "fault_kinds": sorted(self.fault_kinds), "group_calls": len(self.calls), "labels": sorted(self.labels | self.nt)}

    def check(self, step):
        pass

    def nontrivial(self):
        return bool(self.nt)

