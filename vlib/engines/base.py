"""Engine base class, the Hypothesis driver (interactive draws = a state
machine whose whole operation sequence is one shrinkable value), replay
without Hypothesis, and a bounded ddmin over traces."""
import logging
import random
import warnings

from hypothesis import strategies as st

from .. import jsonx
from ..runner import OracleViolation, Violation, hyp


class CaseTimeout(BaseException):
    """Wall-clock watchdog for one generated case (a synchronous endless loop in the code under test would hang
    the whole check): the case is counted inconclusive, never a violation."""


class CaseExcluded(Exception):
    """The case ran into a listed known finding: it is truncated and counted."""


CASE_WALL_LIMIT = 120.0
_state = {}


def quiet_logging():
    logging.getLogger("afkak").setLevel(logging.CRITICAL + 10)
    logging.getLogger("afkak").propagate = False
    logging.getLogger("afkak._group").addHandler(logging.NullHandler())
    logging.getLogger("afkak.protocol").setLevel(logging.CRITICAL + 10)
    warnings.filterwarnings("ignore")
    try:
        from twisted.logger import globalLogPublisher

        # drop everything twisted.logger would print (captured separately by engines that want it)
        for obs in list(getattr(globalLogPublisher, "_observers", [])):
            try:
                globalLogPublisher.removeObserver(obs)
            except Exception:  # noqa
                pass
    except Exception:  # noqa
        pass


class Engine(object):
    NAME = "engine"

    PROPS = None  # clause prefixes this run enforces (None = all)

    def __init__(self, config, ctx, props=None):
        self.config = config
        self.ctx = ctx
        self.props = props
        self.foreign = []
        self.trace = []
        self.noted = []
        self.labels = set()
        self.obs = {}
        quiet_logging()

    # -- to be provided by subclasses ----------------------------------------
    @classmethod
    def config_strategy(cls):
        raise NotImplementedError

    def draw_step(self, draw):
        raise NotImplementedError

    def do(self, step):
        raise NotImplementedError

    def check(self, step):
        """step oracle; called after every step outside afkak's call stack"""

    def finish(self):
        """quiet phase + end-of-case oracles"""

    def nontrivial(self):
        return False

    def summary(self):
        return self.obs

    # ------------------------------------------------------------------
    def note(self, clause, sig, detail):
        """Record an oracle failure (safe inside afkak's call stack); raised after the step.
        A failure of a clause that belongs to another property's check ends the case quietly
        (the model may have diverged), it is that other check's job to report it."""
        if self.props is not None and clause.split(".")[0] not in self.props:
            self.foreign.append((clause, sig))
            return
        self.noted.append((clause, sig, detail))

    def fail(self, clause, sig, detail):
        self.noted.append((clause, sig, detail))
        self.raise_noted()

    def raise_noted(self):
        if not self.noted:
            if self.foreign:
                self.labels.add("ended-by-other-property-clause")
                raise CaseExcluded("foreign:" + self.foreign[0][1])
            return
        clause, sig, detail = self.noted[0]
        self.noted = []
        case = {"engine": self.NAME, "config": self.config, "trace": list(self.trace)}
        if self.ctx.flag(clause, sig, detail, case):
            raise CaseExcluded(sig)

    def apply(self, step):
        self.trace.append(step)
        self.world.step_no = len(self.trace) if hasattr(self, "world") else 0
        self.do(step)
        self.check(step)
        self.raise_noted()

    def end(self):
        if hasattr(self, "world"):
            self.world.step_no = len(self.trace) + 1
        self.finish()
        self.raise_noted()


def run_trace(engine_cls, case, ctx, **kw):
    """Replay without Hypothesis."""
    eng = engine_cls(case["config"], ctx, **kw)
    try:
        for step in case["trace"]:
            eng.apply(list(step) if isinstance(step, (list, tuple)) else step)
        eng.end()
    except CaseExcluded:
        pass
    return eng


def drive(ctx, engine_cls, n, min_steps=5, max_steps=60, offset=0, **kw):
    """n generated cases of engine_cls under Hypothesis; failures are shrunk by ddmin over the trace."""

    def body(data):
        config = data.draw(engine_cls.config_strategy(), label="config")
        eng = engine_cls(config, ctx, **kw)
        ctx.current = {"engine": engine_cls.NAME, "config": config, "trace": eng.trace}
        nsteps = data.draw(st.integers(min_steps, max_steps), label="nsteps")
        excluded = ended = False
        import signal

        def _alarm(sig, frm):
            raise CaseTimeout()

        old = signal.signal(signal.SIGALRM, _alarm)
        signal.setitimer(signal.ITIMER_REAL, CASE_WALL_LIMIT)
        try:
            for _ in range(nsteps):
                step = eng.draw_step(data.draw)
                if step is None:
                    break
                eng.apply(step)
            eng.end()
        except CaseExcluded as e:
            ended = True
            excluded = not str(e).startswith("foreign:")
        except CaseTimeout:
            ended = True
            ctx.inconclusive += 1
            eng.labels.add("inconclusive-wall-clock-watchdog")
            ctx.extra["watchdog_trace"] = jsonx.dumps({"config": config, "trace": eng.trace})[:4000]
        finally:
            signal.setitimer(signal.ITIMER_REAL, 0)
            signal.signal(signal.SIGALRM, old)
        labels = sorted(eng.labels) + (["excluded-by-known-finding"] if excluded else [])
        ctx.case(key=[config, eng.trace], nontrivial=eng.nontrivial() and not ended, labels=labels,
                 sample={"config": config, "trace": eng.trace[:40], "observed": eng.summary()})
        # an engine is one big reference cycle (client <-> transports <-> observers) that may hold megabytes of simulated traffic; the
        # generational collector gets to such garbage rarely once many long-lived objects exist, so collect explicitly now and then
        _state["cases"] = _state.get("cases", 0) + 1
        if _state["cases"] % 8 == 0:
            import gc

            del eng
            gc.collect()

    before = len(ctx.violations)
    hyp(ctx, st.data(), body, n, shrink=False, offset=offset)
    # shrink whatever was found
    for v in ctx.violations[before:]:
        if isinstance(v.case, dict) and "trace" in v.case:
            v.case = ddmin(engine_cls, v.case, v.sig, ctx, budget=300 if ctx.tier == "quick" else 2000, **kw)


def _reproduces(engine_cls, case, sig, ctx, **kw):
    from ..runner import Ctx

    c2 = Ctx(ctx.prop, ctx.tier, ctx.seed, ctx.shard, ctx.nshards, {})
    c2.replaying = True
    try:
        run_trace(engine_cls, case, c2, **kw)
    except OracleViolation as e:
        return e.v.sig == sig
    except Exception:  # noqa - a candidate that breaks the harness is not a reproduction
        return False
    return False


def ddmin(engine_cls, case, sig, ctx, budget=300, **kw):
    """Delta-debug the trace (drop chunks), keeping candidates that reproduce the same signature."""
    import time as _time

    trace = [list(s) if isinstance(s, (list, tuple)) else s for s in case["trace"]]
    config = case["config"]
    used = [0]
    # shrinking is also bounded by wall clock (it only affects how small the replay gets, never a verdict): a violation whose
    # reproduction needs a long quiet phase (e.g. a livelocked rejoin loop) would otherwise cost minutes per candidate
    t_end = _time.time() + (90.0 if ctx.tier == "quick" else 900.0)

    def ok(tr):
        if _time.time() > t_end:
            used[0] = budget
            return False
        used[0] += 1
        return _reproduces(engine_cls, {"engine": case.get("engine"), "config": config, "trace": tr}, sig, ctx, **kw)

    if not ok(trace):
        return case  # not deterministic under replay: keep the original
    n = 2
    while len(trace) >= 2 and used[0] < budget:
        chunk = max(1, len(trace) // n)
        reduced = False
        i = 0
        while i < len(trace) and used[0] < budget:
            cand = trace[:i] + trace[i + chunk:]
            if cand and ok(cand):
                trace = cand
                reduced = True
                n = max(n - 1, 2)
            else:
                i += chunk
        if not reduced:
            if chunk == 1:
                break
            n = min(n * 2, len(trace))
    # simplify integer arguments toward 0
    for i in range(len(trace)):
        for j in range(1, len(trace[i])):
            if used[0] >= budget:
                break
            a = trace[i][j]
            if isinstance(a, bool) or not isinstance(a, int) or a == 0:
                continue
            for smaller in (0, 1, a // 2):
                if smaller == a:
                    continue
                cand = [list(s) for s in trace]
                cand[i][j] = smaller
                if ok(cand):
                    trace = cand
                    break
    return {"engine": case.get("engine"), "config": config, "trace": trace}


__all__ = ["Engine", "CaseExcluded", "drive", "run_trace", "ddmin", "Violation", "jsonx", "random"]
