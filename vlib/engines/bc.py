"""Engine BC: one real _KafkaBrokerClient on a simulated connection to a
scripted peer; a reference model predicts, after every step, what must have
been written, which connection attempts must exist, and the state of every
request Deferred.  Serves C06 and C10."""
import struct

from hypothesis import strategies as st

from .. import simnet
from .base import Engine

MAXLEN = 2 ** 31 - 1
ADDRS = [("b0.example", 9092), ("b0-moved.example", 9093)]
WAITS = [0.001, 0.05, 0.1, 1.0, 5.0]


class ScriptedPeer(object):
    def __init__(self):
        self.up = True
        self.sync_refuse = False

    def accepting(self, host, port):
        return self.up

    def refuses_synchronously(self, host, port):
        # an endpoint may fail before it returns (TCP4ClientEndpoint.connect turns an exception into defer.fail())
        return self.sync_refuse

    def on_frame(self, conn, frame):
        pass


class Req(object):
    def __init__(self, idx, cid, expect, frame):
        self.idx = idx
        self.cid = cid
        self.expect = expect
        self.frame = frame
        self.state = "out"  # out | ok | cancelled | closed
        self.value = None
        self.sent_conn = None  # cid of the connection it is currently written on
        self.tomb = False
        self.watch = None
        self.writes = 0


def policy_fn(cfg):
    kind, base = cfg["kind"], cfg["base"]

    def policy(k):
        if kind == "lin":
            return base * k
        if kind == "exp":
            return min(base * (2 ** k), 8.0)
        return base

    return policy


class BCEngine(Engine):
    NAME = "BC"

    @classmethod
    def config_strategy(cls):
        return st.fixed_dictionaries({
            "policy": st.fixed_dictionaries({"kind": st.sampled_from(["lin", "exp", "const"]), "base": st.sampled_from([0.0, 0.1, 0.5, 1.0, 1.0, 9.0, 40.0])}),
            "first_id": st.sampled_from([1, 7, 2 ** 31 - 3, -3, -(2 ** 31)]),  # the id is an int32 on the wire: the whole range, both wraps
        })

    def __init__(self, config, ctx, props=None):
        Engine.__init__(self, config, ctx, props)
        from afkak.brokerclient import _KafkaBrokerClient
        from afkak.common import BrokerMetadata

        self.world = w = simnet.World()
        self.peer = ScriptedPeer()
        for a in ADDRS:
            w.listeners[a] = self.peer
        self.policy = policy_fn(config["policy"])
        self.addr = ADDRS[0]
        self.bc = _KafkaBrokerClient(w.clock, w.endpoint_factory, BrokerMetadata(1, ADDRS[0][0], ADDRS[0][1]), "verif", self.policy)
        self.reqs = []
        self.next_id = config["first_id"]
        self.cur = None  # model: current connection (simnet.Conn) the client believes it has
        self.connecting = False  # attempt in flight or backoff pending
        self.failures = 0
        self.backoff_due = None
        self.closed = False
        self.closed_real = False  # close() really called (possibly from inside a response callback, before the model learns of it)
        self.reentrant_close_error = None
        self.sibling_cancel_error = None
        self.close_error = None
        self.close_watch = None
        self.close_expected = False
        self.seen_attempts = 0
        self.seen_writes = 0
        self.exp_writes = []  # expected (conn cid, frame) for this step
        self.exp_attempts = []  # expected (host, port, time or None=now) for this step
        self.exp_closed_conns = set()
        self.rx = {}  # conn cid -> bytearray of delivered-but-unparsed bytes (model's own reassembly)
        self.rx_dead = set()
        self.unknown_id = 2 ** 30
        self.script = []
        self.late_reply_this_step = False
        self.nt = set()
        self.drops = 0

    # ------------------------------------------------------------------
    def draw_step(self, draw):
        w = self.world
        ops = []
        if self.script:
            return self.script.pop(0)
        if not self.closed and draw(st.integers(0, 7)) == 0:
            # script 'coalesced': three requests answered in any order, the answers handed to the client in one or two chunks; the first
            # request's callback may close the client from inside the delivery (then the rest of that chunk arrives after the close)
            perm = draw(st.permutations([0, 1, 2]))
            n0 = sum(1 for r in self.reqs if r.state == "out")
            self.script = [["req", True, draw(st.booleans())], ["req", True, False], ["req", True, False], ["run", 8],
                           ["reply", n0 + perm[0], 0], ["reply", n0 + perm[1], draw(st.integers(0, 3))], ["merge"], ["reply", n0 + perm[2], 0]]
            if draw(st.booleans()):
                self.script.append(["merge"])
            self.script.append(["run", 8])
            self.labels.add("script:coalesced")
            return self.script.pop(0)
        if not self.closed and draw(st.integers(0, 11)) == 0:
            # script 'latereply': a request is written, given up by its owner (cancelled, as at a timeout), its id is used again while the
            # reply is still outstanding, then the reply to the first one arrives
            n0 = sum(1 for r in self.reqs if r.state == "out")
            self.script = [["req", True, False], ["run", 8], ["cancel", n0, 0], ["reusetomb", 0, 0], ["run", 4], ["reply", n0, draw(st.integers(0, 3))], ["run", 6]]
            self.labels.add("script:latereply")
            return self.script.pop(0)
        evs = w.pending()
        if not self.closed:
            ops += ["req", "req", "req"]
            if any(r.state == "out" for r in self.reqs):
                ops += ["cancel", "dup"]
            if any(r.state != "out" and not r.tomb for r in self.reqs):
                ops += ["reuse"]
            if any(r.tomb for r in self.reqs):
                ops += ["reusetomb", "reusetomb"]
            ops += ["disc", "upd", "updown"]
            if self.config["policy"]["base"] >= 0.1:  # with no delay between attempts a synchronous refusal never lets the clock move
                ops += ["syncref"]
            if len(self.trace) > 4:
                ops += ["close"]
        srv = self._server_conn()
        if srv is not None:
            ops += ["reply", "reply", "reply", "replyany", "unk", "drop"]
            if srv.s2c:
                ops += ["chunk", "chunk", "cdrop"]
            if len(srv.s2c) >= 2:
                ops += ["merge", "merge", "merge"]
            if not self.closed:
                ops += ["badlen"]
        if evs:
            ops += ["run", "run", "run", "run", "ev", "ev"]
        if w.pending("connect"):
            ops += ["conn", "conn"]
        if w.next_timer() is not None:
            ops += ["timer", "wait"]
        if not ops:
            return None
        op = draw(st.sampled_from(ops))
        if op == "req":
            k = draw(st.integers(0, 11))
            return ["req", draw(st.sampled_from([True, True, True, False])), True if k == 0 else 2 if k == 1 else False]
        if op in ("cancel", "dup", "reuse", "reusetomb", "reply", "replyany"):
            return [op, draw(st.integers(0, 30)), draw(st.integers(0, 12))]
        if op == "conn":
            return ["conn", draw(st.integers(0, 3)), draw(st.sampled_from(["accept", "accept", "refuse"]))]
        if op == "ev":
            return ["ev", draw(st.sampled_from(["srv", "dlv", "lost", "connect"])), draw(st.integers(0, 5))]
        if op == "run":
            return ["run", draw(st.integers(1, 8))]
        if op in ("chunk", "cdrop"):
            return [op, draw(st.integers(0, 40))]
        if op == "badlen":
            return ["badlen", draw(st.sampled_from([2 ** 31, 2 ** 32 - 1, 2 ** 31 + 12345])), draw(st.integers(0, 8))]
        if op == "upd":
            return ["upd", draw(st.integers(0, 1))]
        if op == "wait":
            return ["wait", draw(st.integers(0, len(WAITS) - 1))]
        if op == "unk":
            return ["unk", draw(st.integers(0, 12))]
        return [op]

    def _server_conn(self):
        """the newest connection the peer still holds"""
        for c in reversed(self.world.conns):
            if not c.dropped and not c.client_closed and not c.lost_delivered and not c.lost_queued:
                return c
        return None

    # ------------------------------------------------------------------
    def _mk_frame(self, cid, idx):
        return struct.pack(">hhi", 3, 0, cid) + struct.pack(">h", 5) + b"verif" + b"#%d" % idx

    def _expect_connect_now(self):
        if not self.connecting and self.cur is None and not self.closed:
            self.connecting = True
            self.failures = 0
            self.exp_attempts.append((self.addr[0], self.addr[1], None))
            self._sync_refused(self.world.now)

    def _sync_refused(self, at):
        """the attempt just expected fails before connect() returns: it counts as a failure made at `at`"""
        if self.peer.sync_refuse:
            self.failures += 1
            self.backoff_due = at + self.policy(self.failures)
            self.labels.add("connect-refused-synchronously")
            if self.failures >= 2:
                self.labels.add("consecutive-connect-failures")

    def _write_expected(self, r):
        self.exp_writes.append((self.cur.cid, r.frame))
        r.writes += 1
        if r.expect:
            r.sent_conn = self.cur.cid
        else:
            r.state = "ok"
            r.value = None

    def do(self, step):
        from afkak.common import BrokerMetadata, DuplicateRequestError

        w = self.world
        op = step[0]
        self.exp_writes = []
        self.exp_attempts = []
        self.late_reply_this_step = False
        if op == "updown":
            self.peer.up = not self.peer.up
            return
        if op == "syncref":
            self.peer.sync_refuse = not self.peer.sync_refuse
            return
        if op == "reusetomb":
            # id of a request that was written, then cancelled, and whose reply has not arrived: the client may
            # refuse it (DuplicateRequestError) or accept it; if it accepts, replies are matched oldest-first per id
            tombs = [r for r in self.reqs if r.tomb]
            if not tombs or self.closed:
                return
            cid = tombs[step[1] % len(tombs)].cid
            if any(r.cid == cid and r.state == "out" for r in self.reqs):
                return
            r = Req(len(self.reqs), cid, True, None)
            r.frame = self._mk_frame(cid, r.idx)
            try:
                d = self.bc.makeRequest(cid, r.frame, expectResponse=True)
            except DuplicateRequestError:
                self.labels.add("tombstoned-id-refused")
                return
            self.labels.add("tombstoned-id-accepted")
            self.reqs.append(r)
            r.watch = simnet.Watch(d, w, "req%d" % r.idx)
            r.watch.silence()
            if self.cur is not None:
                self._write_expected(r)
            else:
                self._expect_connect_now()
            return
        if op == "req" or op == "reuse":
            if op == "reuse":
                done = [r for r in self.reqs if r.state != "out" and not r.tomb]
                if not done:
                    return
                cid = done[step[1] % len(done)].cid
                if any(r.cid == cid and (r.state == "out" or r.tomb) for r in self.reqs):
                    return
                expect = True
                self.labels.add("id-reused-after-completion")
            else:
                cid = self.next_id
                self.next_id = self.next_id + 1 if self.next_id < 2 ** 31 - 1 else -(2 ** 31)
                expect = bool(step[1])
            r = Req(len(self.reqs), cid, expect, None)
            r.frame = self._mk_frame(cid, r.idx)
            self.reqs.append(r)
            try:
                d = self.bc.makeRequest(cid, r.frame, expectResponse=expect)
            except Exception as e:  # noqa
                self.note("C06.accepts-request", "C06.makeRequest-raised/%s" % type(e).__name__, "makeRequest(%d) raised %r" % (cid, e))
                r.state = "rejected"
                return
            r.watch = simnet.Watch(d, w, "req%d" % r.idx)
            if op == "req" and len(step) > 2 and step[2] == 2 and expect:
                # "if one fails, give up the others": the owner's errback cancels another request that is still pending - also when the
                # failure comes from close(), which is then in the middle of failing the pending requests
                self.labels.add("errback-cancels-sibling-armed")

                def _cancel_other(fail, r=r):
                    others = [x for x in self.reqs if x is not r and x.watch is not None and x.watch.state == "pending" and x.state in ("out", "closed")]
                    if others:
                        y = others[0]
                        if y.state == "out":
                            y.state = "cancelled"
                            if self.cur is not None and y.sent_conn == self.cur.cid:
                                y.tomb = True
                        else:
                            y.state = "closed-or-cancelled"  # close() fails the pending requests "at once": either outcome is right
                        self.labels.add("errback-cancelled-sibling")
                        self.nt.add("errback-cancelled-sibling")
                        try:
                            y.watch.d.cancel()
                        except Exception as e:  # noqa
                            self.sibling_cancel_error = (r.idx, y.idx, e)
                    return fail

                d.addErrback(_cancel_other)
            r.watch.silence()
            if op == "req" and len(step) > 2 and step[2] is True and expect:
                # the owner's callback closes the broker client from inside the response delivery (KafkaClient does so when a metadata
                # response drops the answering broker): the request is complete, everything else pending fails, nothing is left half-done
                r.cbclose = True
                self.labels.add("close-from-response-callback-armed")

                def _close_inside(res, r=r):
                    if not self.closed_real:
                        self.closed_real = True
                        # the model learns of it at this very instant: this request has its answer, everything else pending is closed
                        if r.state == "out":
                            r.state = "ok"
                            r.value = res
                        self.labels.add("closed-from-response-callback")
                        self.nt.add("closed-from-response-callback")
                        if not self.closed:
                            self._model_close()
                        try:
                            d2 = self.bc.close()
                            self.close_watch = simnet.Watch(d2, w, "close")
                            self.close_watch.silence()
                        except Exception as e:  # noqa
                            self.reentrant_close_error = (r.idx, e)
                    return res

                d.addCallback(_close_inside)
            if self.closed:
                r.state = "closed"
            elif self.cur is not None:
                self._write_expected(r)
            else:
                self._expect_connect_now()
        elif op == "dup":
            out = [r for r in self.reqs if r.state == "out"]
            if not out or self.closed:
                return
            r = out[step[1] % len(out)]
            self.labels.add("duplicate-inflight-id")
            try:
                d = self.bc.makeRequest(r.cid, self._mk_frame(r.cid, 9999), expectResponse=True)
            except DuplicateRequestError:
                return
            except Exception as e:  # noqa
                self.note("C06.duplicate-rejected", "C06.duplicate-id/raised-%s" % type(e).__name__, "duplicate id %d: raised %r" % (r.cid, e))
                return
            d.addErrback(lambda f: None)
            self.note("C06.duplicate-rejected", "C06.duplicate-id/accepted", "makeRequest accepted correlation id %d while request #%d with that id is outstanding" % (r.cid, r.idx))
        elif op == "cancel":
            out = [r for r in self.reqs if r.state == "out"]
            if not out:
                return
            r = out[step[1] % len(out)]
            r.state = "cancelled"
            if self.cur is not None and r.sent_conn == self.cur.cid:
                r.tomb = True
                self.labels.add("cancel-after-write")
            else:
                self.labels.add("cancel-before-write")
            r.watch.d.cancel()
        elif op == "conn":
            pend = w.pending("connect")
            if not pend:
                return
            ev = pend[step[1] % len(pend)]
            self._process(ev, step[2])
        elif op == "ev":
            pend = w.pending(step[1])
            if not pend:
                return
            self._process(pend[step[2] % len(pend)])
        elif op == "run":
            for _ in range(step[1]):
                pend = w.pending()
                if not pend:
                    break
                self._process(pend[0])
        elif op in ("reply", "replyany", "unk"):
            c = self._server_conn()
            if c is None:
                return
            if op == "reply":
                if not c.frames_processed:
                    return
                f = c.frames_processed[step[1] % len(c.frames_processed)]
                cid = struct.unpack(">i", f[4:8])[0]
                tag = f[8:]
            elif op == "replyany":
                if not self.reqs:
                    return
                r = self.reqs[step[1] % len(self.reqs)]
                cid, tag = r.cid, b"unsolicited"
                self.labels.add("unsolicited-or-late-frame")
            else:
                self.unknown_id += 1
                cid, tag = self.unknown_id, b"unknown"
                self.labels.add("unknown-id-frame")
            payload = struct.pack(">i", cid) + tag + b"." * (step[-1] if op != "unk" else step[1])
            c.send_frame(payload)
        elif op == "badlen":
            c = self._server_conn()
            if c is None:
                return
            c.send(struct.pack(">I", step[1]) + b"x" * step[2])
            self.labels.add("over-limit-length")
        elif op == "chunk":
            c = self._server_conn()
            if c is not None and w.split_head(c, step[1]):
                self.labels.add("split-frame")
        elif op == "merge":
            c = self._server_conn()
            if c is not None and w.merge_head(c):
                self.labels.add("coalesced-frames")
        elif op == "cdrop":
            # deliver only the first part of the next frame, then the network drops the connection (drop inside a frame)
            c = self._server_conn()
            if c is None or not w.split_head(c, step[1]):
                return
            for e in w.pending("dlv"):
                if e.conn is c:
                    self._process(e)
                    break
            if self.rx.get(c.cid):
                self.labels.add("drop-mid-frame")
                self.nt.add("drop-mid-frame")
            c.drop()
        elif op == "drop":
            c = self._server_conn()
            if c is None:
                return
            if len(c.delivered) and self.rx.get(c.cid):
                self.labels.add("drop-mid-frame")
            c.drop()
        elif op == "disc":
            if self.cur is not None and not self.closed:
                self.exp_closed_conns.add(self.cur.cid)
            self.bc.disconnect()
        elif op == "upd":
            if self.closed:
                return
            self.addr = ADDRS[step[1] % len(ADDRS)]
            self.bc.updateMetadata(BrokerMetadata(1, self.addr[0], self.addr[1]))
        elif op == "close":
            if self.closed or self.closed_real:
                return
            self.closed_real = True
            self._model_close()
            try:
                d = self.bc.close()
            except Exception as e:  # noqa
                self.close_error = e
                return
            self.close_watch = simnet.Watch(d, w, "close")
            self.close_watch.silence()
        elif op == "timer":
            before = w.now
            w.fire_next_timer()
            self._timer_passed(before)
        elif op == "wait":
            before = w.now
            w.advance(WAITS[step[1] % len(WAITS)])
            self._timer_passed(before)

    def _timer_passed(self, before):
        w = self.world
        while self.backoff_due is not None and not self.closed and w.now > self.backoff_due - 1e-12:
            # the backoff timer is due; if the clock is strictly past it, the attempt must have been made
            logged = len(w.attempt_log) > self.seen_attempts + len(self.exp_attempts)
            if logged or w.now > self.backoff_due + 1e-9:
                due = self.backoff_due
                self.exp_attempts.append((self.addr[0], self.addr[1], due))
                self.backoff_due = None
                self._sync_refused(due)  # refused before connect() returned: the next timer runs from that attempt
            else:
                break

    def _process(self, ev, action=None):
        w = self.world
        if ev.kind == "connect":
            a = ev.attempt
            will_accept = (action or "accept") == "accept" and self.peer.accepting(a.host, a.port)
            w.process(ev, action)
            if a.cancelled:
                return
            if will_accept:
                conn = w.conns[-1]
                self.rx[conn.cid] = bytearray()
                if self.closed:
                    self.exp_closed_conns.add(conn.cid)
                    self.cur = conn
                    return
                self.cur = conn
                self.connecting = False
                self.failures = 0
                for r in self.reqs:
                    if r.state == "out" and r.sent_conn != conn.cid:
                        self._write_expected(r)
            else:
                if self.closed:
                    return
                self.failures += 1
                self.backoff_due = w.now + self.policy(self.failures)
                self.labels.add("connect-refused")
                if self.failures >= 2:
                    self.labels.add("consecutive-connect-failures")
        elif ev.kind == "dlv":
            c = ev.conn
            chunk = c.s2c[0] if c.s2c else b""
            # the model reads the chunk first, frame by frame: a response callback that closes the client (inside w.process) does so
            # between two frames of a coalesced chunk, and the frames before it have already had their effect
            self._model_rx(c, chunk)
            w.process(ev)
        elif ev.kind == "lost":
            c = ev.conn
            w.process(ev)
            if self.cur is not None and c.cid == self.cur.cid:
                self.cur = None
                self.drops += 1
                answered = any(r.state in ("ok", "cancelled") for r in self.reqs)
                pending = [r for r in self.reqs if r.state == "out"]
                for r in self.reqs:
                    r.tomb = False
                    if r.state == "out":
                        r.sent_conn = None
                if self.closed:
                    self.close_expected = True
                elif pending:
                    if answered:
                        self.nt.add("drop-with-mixed-requests")
                    if self.drops >= 2:
                        self.nt.add("two-drops")
                    self.labels.add("drop-with-unanswered")
                    self._expect_connect_now()
                else:
                    self.labels.add("idle-drop")
        else:
            w.process(ev)

    def _model_close(self):
        """what close() means for the model (the caller performs the real close())"""
        self.closed = True
        if any(r.state == "out" for r in self.reqs):
            self.nt.add("closed-with-pending")
        for r in self.reqs:
            if r.state == "out":
                r.state = "closed"
        if self.cur is not None:
            self.exp_closed_conns.add(self.cur.cid)
            self.close_expected = False
        else:
            self.close_expected = True
        self.connecting = False
        self.backoff_due = None

    def _model_rx(self, c, chunk):
        """the model's own reassembly of the byte stream handed to the client"""
        if c.cid in self.rx_dead or c.cid not in self.rx:
            return
        buf = self.rx[c.cid]
        buf += chunk
        while len(buf) >= 4:
            (n,) = struct.unpack(">I", buf[:4])
            if n > MAXLEN:
                self.exp_closed_conns.add(c.cid)
                self.rx_dead.add(c.cid)
                return
            if len(buf) < 4 + n:
                return
            payload = bytes(buf[4 : 4 + n])
            del buf[: 4 + n]
            if self.cur is None or c.cid != self.cur.cid:
                continue
            (cid,) = struct.unpack(">i", payload[:4])
            cands = [r for r in self.reqs if r.cid == cid and ((r.state == "out" and r.sent_conn == c.cid) or r.tomb)]
            hit = cands[:1] if cands and not cands[0].tomb else []
            tomb = cands[:1] if cands and cands[0].tomb else []
            if hit:
                hit[0].state = "ok"
                hit[0].value = payload
                if getattr(hit[0], "cbclose", False) and not self.closed:
                    self._model_close()  # its callback closes the client before the next frame of this chunk is looked at

                if sum(1 for r in self.reqs if r.state == "out") >= 1:
                    self.labels.add("answer-with-others-outstanding")
                first_out = [r for r in self.reqs if r.state == "out" and r.sent_conn == c.cid]
                if first_out and first_out[0].idx < hit[0].idx:
                    self.nt.add("answered-out-of-order")
            elif tomb:
                tomb[0].tomb = False
                self.nt.add("late-reply-to-cancelled")
                self.late_reply_this_step = True
            else:
                self.labels.add("frame-for-nobody")

    # ------------------------------------------------------------------
    def check(self, step):
        from twisted.internet.defer import CancelledError

        from afkak.common import ClientError

        w = self.world
        # an exception escaping into the transport / reactor (a reactor logs it and, for dataReceived, drops the connection): the broker
        # client's bookkeeping for that event was cut short
        excs = w.exceptions[getattr(self, "seen_exceptions", 0):]
        self.seen_exceptions = len(w.exceptions)
        for where, what in excs:
            if where == "dataReceived":
                self.note("C06.completes-with-own-response", "C06.exception-escaped/dataReceived", "step %r: handling received bytes raised %s" % (step, what[:200]))
            else:
                self.note("C10.reconnects", "C10.exception-escaped/%s" % where, "step %r: %s raised %s" % (step, where, what[:200]))
                self.note("C06.failure-kinds", "C06.exception-escaped/%s" % where, "step %r: %s raised %s" % (step, where, what[:200]))
        if self.close_error is not None:
            e, self.close_error = self.close_error, None
            self._note_close("C20.pending-fail-at-once", "C20.broker-close-raised/%s" % type(e).__name__, "C10.close", "C10.close-raised/%s" % type(e).__name__, "step %r: close() raised %r" % (step, e))
        if self.sibling_cancel_error is not None:
            (i, j, e), self.sibling_cancel_error = self.sibling_cancel_error, None
            self.note("C06.failure-kinds", "C06.cancel-raised/%s" % type(e).__name__, "cancelling request #%d from the errback of request #%d raised %r" % (j, i, e))
        if self.reentrant_close_error is not None:
            idx, e = self.reentrant_close_error
            self.reentrant_close_error = None
            self.note("C06.completes-with-own-response", "C06.close-from-callback-raised/%s" % type(e).__name__, "close() called from the callback of request #%d's response raised %r" % (idx, e))
        # 1. connection attempts made during this step
        new = w.attempt_log[self.seen_attempts:]
        self.seen_attempts = len(w.attempt_log)
        exp = self.exp_attempts
        if len(new) != len(exp):
            if len(new) < len(exp):
                self.note("C10.reconnects", "C10.attempt-missing/%s" % step[0],
                          "step %r: expected a connection attempt to %r, none was made (requests pending: %r)" % (step, exp[0][:2], [r.idx for r in self.reqs if r.state == "out"]))
            else:
                why = "after-close" if self.closed else "idle" if not any(r.state == "out" for r in self.reqs) else "extra"
                self.note("C10.reconnects", "C10.attempt-unexpected/%s" % why, "step %r: unexpected connection attempt(s) %r (expected %r)" % (step, [(a.host, a.port, a.time) for a in new], exp))
        else:
            for a, (h, p, t) in zip(new, exp):
                if (a.host, a.port) != (h, p):
                    self.note("C10.reconnects", "C10.attempt-address", "attempt went to %s:%s, current address is %s:%s" % (a.host, a.port, h, p))
                if t is not None and abs(a.time - t) > 1e-9:
                    self.note("C10.backoff", "C10.backoff-delay", "attempt after %d consecutive failure(s) made at t=%r, retry policy says t=%r" % (self.failures, a.time, t))
        if self.backoff_due is not None and self.closed:
            self.backoff_due = None
        # 2. frames written during this step
        neww = w.write_log[self.seen_writes:]
        self.seen_writes = len(w.write_log)
        got = [(c.cid, f) for (_, _, c, f) in neww]
        if got != self.exp_writes:
            def ids(l):
                return [(c, struct.unpack(">i", f[4:8])[0]) for c, f in l]
            kind = "resend-order" if sorted(got) == sorted(self.exp_writes) else "missing" if len(got) < len(self.exp_writes) else "extra"
            self.note("C10.resend", "C10.writes-%s/%s" % (kind, step[0]),
                      "step %r: frames written (conn, correlation id) %r, expected %r" % (step, ids(got), ids(self.exp_writes)))
        # 3. connections the client must have closed
        for cid in list(self.exp_closed_conns):
            c = w.conns[cid]
            if not c.client_closed:
                what = "over-limit-length" if cid in self.rx_dead else "disconnect-or-close"
                self.note("C06.length-limit" if what == "over-limit-length" else "C10.close", "C06.not-closed/%s" % what,
                          "step %r: client was expected to close connection %d (%s) but did not" % (step, cid, what))
            self.exp_closed_conns.discard(cid)
        # 4. every request's Deferred
        for r in self.reqs:
            if r.watch is None:
                continue
            wt = r.watch
            if wt.extra_attempts:
                self.note("C06.exactly-once", "C06.second-fire-attempt", "request #%d (id %d): Deferred fired again: %r" % (r.idx, r.cid, wt.extra_attempts))
            if r.state == "out":
                if wt.state != "pending":
                    if getattr(self, "late_reply_this_step", False):
                        # the owner cancels a request when its timeout expires: the reply that then still arrives is C11's "late reply"
                        self.note("C11.late-reply-harmless", "C11.late-reply-completed-another-request", "step %r delivered the reply to a request cancelled earlier (timed out); request #%d (id %d), still unanswered, fired with %.200r" % (step, r.idx, r.cid, wt.value))
                    self.note("C06.completes-with-own-response", "C06.fired-unexpectedly/%s" % wt.state,
                              "step %r: request #%d (id %d) is unanswered but its Deferred fired with %.200r" % (step, r.idx, r.cid, wt.value))
            elif r.state == "ok":
                if wt.state != "ok" or wt.value != r.value:
                    kind = "not-fired" if wt.state == "pending" else "wrong-value"
                    self.note("C06.completes-with-own-response", "C06.response/%s" % kind,
                              "step %r: request #%d (id %d) should have completed with %.120r; Deferred is %s %.200r" % (step, r.idx, r.cid, r.value, wt.state, wt.value))
            elif r.state == "cancelled":
                if wt.state != "err" or not wt.value.check(CancelledError):
                    self.note("C06.failure-kinds", "C06.cancelled-outcome", "request #%d cancelled but Deferred is %s %.200r" % (r.idx, wt.state, wt.value))
            elif r.state == "closed-or-cancelled":
                if wt.state != "err" or not wt.value.check(ClientError, CancelledError):
                    self._note_close("C20.pending-fail-at-once", "C20.broker-pending-not-failed", "C10.close-fails-pending", "C10.close-fails-pending", "request #%d pending at close() and cancelled from a sibling's errback: Deferred is %s %.200r" % (r.idx, wt.state, wt.value))
            elif r.state == "closed":
                if wt.state != "err" or not wt.value.check(ClientError):
                    self._note_close("C20.pending-fail-at-once", "C20.broker-pending-not-failed", "C10.close-fails-pending", "C10.close-fails-pending", "request #%d pending at close(): Deferred is %s %.200r" % (r.idx, wt.state, wt.value))
        # 5. close Deferred
        if self.close_watch is not None:
            cw = self.close_watch
            if cw.extra_attempts:
                self._note_close("C20.close-fires-once", "C20.broker-close-fired-twice", "C10.close", "C10.close-fired-twice", "close() Deferred fired again %r" % cw.extra_attempts)
            if self.close_expected and cw.state == "pending":
                self._note_close("C20.close-fires-after-last", "C20.broker-close-not-fired", "C10.close", "C10.close-not-fired", "step %r: connection gone / attempt cancelled but close() Deferred has not fired" % (step,))
            if not self.close_expected and cw.state != "pending":
                self._note_close("C20.close-fires-after-last", "C20.broker-close-fired-early", "C10.close", "C10.close-fired-early", "step %r: close() Deferred fired while connection %r is still open" % (step, self.cur))

    def finish(self):
        w = self.world
        # play everything out, then close: every Deferred must have fired exactly once
        self.apply_quiet(["run", 50])
        if not self.closed:
            self.apply_quiet(["close"])
        self.apply_quiet(["run", 50])
        for r in self.reqs:
            if r.watch is not None and r.watch.state == "pending":
                self.note("C06.exactly-once", "C06.never-fired", "request #%d (id %d, model state %s) never completed, even after close()" % (r.idx, r.cid, r.state))
        if w.forbidden:
            self._note_close("C20.quiet-after-close", "C20.broker-activity-after-close", "C10.close", "C10.activity-after-close", repr(w.forbidden[:3]))
        out = sum(1 for r in self.reqs if r.watch is not None)
        self.obs = {"requests": out, "connections": len(w.conns), "attempts": len(w.attempt_log), "drops": self.drops, "labels": sorted(self.labels | self.nt)}

    def apply_quiet(self, step):
        self.do(step)
        self.check(step)
        self.raise_noted()

    def _note_close(self, c20_clause, c20_sig, c10_clause, c10_sig, detail):
        """the broker client's close() is the mechanism of both C10's last sentence and C20 ('broker client close: drop connection or
        cancel attempt, fail pending requests')"""
        self.note(c20_clause, c20_sig, detail)
        self.note(c10_clause, c10_sig, detail)

    def nontrivial(self):
        return bool(self.nt)


# ---------------------------------------------------------------------------
# the ephemeral bootstrap connection (KafkaBootstrapProtocol)


class BPEngine(Engine):
    NAME = "BP"

    @classmethod
    def config_strategy(cls):
        return st.fixed_dictionaries({"first_id": st.sampled_from([1, 1000, 2 ** 31 - 2])})

    def __init__(self, config, ctx, props=None):
        Engine.__init__(self, config, ctx, props)
        from afkak._protocol import bootstrapFactory

        self.world = w = simnet.World()
        self.peer = ScriptedPeer()
        w.listeners[ADDRS[0]] = self.peer
        d = w.endpoint_factory(w.clock, ADDRS[0][0], ADDRS[0][1]).connect(bootstrapFactory)
        self.proto = None
        d.addCallback(lambda p: setattr(self, "proto", p))
        w.run_fifo(1)
        self.conn = w.conns[0]
        self.reqs = []  # [id, state, value, watch]
        self.next_id = config["first_id"]
        self.rx = bytearray()
        self.dead = False  # model: connection lost (or unknown id seen -> client drops it)
        self.expect_close = False
        self.nt = set()

    def draw_step(self, draw):
        w = self.world
        ops = ["req", "req", "reply", "reply", "unk", "drop"]
        if self.conn.s2c:
            ops += ["chunk", "chunk"]
        if w.pending():
            ops += ["run", "run", "run", "ev"]
        op = draw(st.sampled_from(ops))
        if op in ("reply", "unk"):
            return [op, draw(st.integers(0, 20)), draw(st.integers(0, 10))]
        if op == "run":
            return ["run", draw(st.integers(1, 6))]
        if op == "ev":
            return ["ev", draw(st.sampled_from(["srv", "dlv", "lost"])), draw(st.integers(0, 5))]
        if op == "chunk":
            return ["chunk", draw(st.integers(0, 30))]
        return [op]

    def do(self, step):
        w = self.world
        op = step[0]
        if op == "req":
            cid = self.next_id
            self.next_id = (self.next_id + 1) % (2 ** 31)
            frame = struct.pack(">hhi", 3, 0, cid) + struct.pack(">h", 1) + b"v"
            d = self.proto.request(frame)
            wt = simnet.Watch(d, w)
            wt.silence()
            self.reqs.append([cid, "lost" if self.dead_client() else "out", None, wt])
        elif op in ("reply", "unk"):
            if self.conn.dropped or self.conn.client_closed or self.conn.lost_queued:
                return
            if op == "reply":
                if not self.reqs:
                    return
                cid = self.reqs[step[1] % len(self.reqs)][0]
            else:
                cid = 2 ** 30 + step[1]
                self.labels.add("unknown-id")
            self.conn.send_frame(struct.pack(">i", cid) + b"r" * step[2])
        elif op == "drop":
            self.conn.drop()
        elif op == "chunk":
            if w.split_head(self.conn, step[1]):
                self.labels.add("split-frame")
        elif op == "run":
            for _ in range(step[1]):
                p = w.pending()
                if not p:
                    break
                self._process(p[0])
        elif op == "ev":
            p = w.pending(step[1])
            if p:
                self._process(p[step[2] % len(p)])

    def dead_client(self):
        return self.conn.lost_delivered

    def _process(self, ev):
        w = self.world
        if ev.kind == "dlv":
            chunk = ev.conn.s2c[0]
            w.process(ev)
            if self.expect_close:
                return
            self.rx += chunk
            while len(self.rx) >= 4:
                (n,) = struct.unpack(">I", self.rx[:4])
                if len(self.rx) < 4 + n:
                    break
                payload = bytes(self.rx[4 : 4 + n])
                del self.rx[: 4 + n]
                (cid,) = struct.unpack(">i", payload[:4])
                hit = [r for r in self.reqs if r[0] == cid and r[1] == "out"]
                if hit:
                    hit[0][1], hit[0][2] = "ok", payload
                    if any(r[1] == "out" and r[0] < cid for r in self.reqs):
                        self.nt.add("answered-out-of-order")
                else:
                    # unknown (or already answered) id: the connection must be dropped by the client
                    self.expect_close = True
                    self.rx = bytearray()
                    self.nt.add("unknown-id-with-pending" if any(r[1] == "out" for r in self.reqs) else "unknown-id")
                    break
        elif ev.kind == "lost":
            w.process(ev)
            for r in self.reqs:
                if r[1] == "out":
                    r[1] = "lost"
        else:
            w.process(ev)

    def check(self, step):
        if self.expect_close and not self.conn.client_closed and not self.conn.lost_delivered:
            self.note("C06.bootstrap-unknown-id", "C06.bootstrap/unknown-id-not-dropped", "frame with unknown correlation id did not make the bootstrap protocol drop the connection")
        for cid, state, value, wt in self.reqs:
            if wt.extra_attempts:
                self.note("C06.exactly-once", "C06.bootstrap/second-fire", "bootstrap request %d fired again %r" % (cid, wt.extra_attempts))
            if state == "out" and wt.state != "pending":
                self.note("C06.completes-with-own-response", "C06.bootstrap/fired-unexpectedly", "bootstrap request %d unanswered but Deferred is %s %.100r" % (cid, wt.state, wt.value))
            if state == "ok" and (wt.state != "ok" or wt.value != value):
                self.note("C06.completes-with-own-response", "C06.bootstrap/response", "bootstrap request %d should hold %.100r, Deferred is %s %.100r" % (cid, value, wt.state, wt.value))
            if state == "lost" and wt.state != "err":
                self.note("C06.exactly-once", "C06.bootstrap/not-failed-on-loss", "bootstrap request %d pending at connection loss: Deferred is %s" % (cid, wt.state))

    def finish(self):
        self.conn.drop()
        for _ in range(50):
            p = self.world.pending()
            if not p:
                break
            self._process(p[0])
        self.check(["end"])
        self.obs = {"requests": len(self.reqs), "labels": sorted(self.labels | self.nt)}

    def nontrivial(self):
        return bool(self.nt) and len(self.reqs) >= 2
