"""Engine PROD: real KafkaClient + Producer on the simulated cluster.  Serves
C01 (truthful acknowledgements, exactly once), C09 (per-partition order,
disciplined retries), C19 (batching thresholds / time limit / cancellation),
and end-to-end parts of C04 (message format fits the negotiated version),
C08 (recovery after leader moves) and C18 (hashed partition choice)."""
import struct

from hypothesis import strategies as st

from .. import jvm as _jvm
from .. import refproto as rp
from .. import simnet
from . import cl as _cl
from .base import Engine

WAITS = [0.001, 0.05, 0.25, 0.5, 1.0, 2.0, 5.0]
PCODES = [3, 5, 6, 7, 19, 10, 17, 18, 29, 87]
CONNECT_LATENCY = 0.005


def config_strategy(batching="mixed"):
    @st.composite
    def cfg(draw):
        nb = draw(st.integers(1, 3))
        topics = []
        for i in range(draw(st.integers(1, 2))):
            parts = draw(st.lists(st.integers(1, nb), min_size=1, max_size=4))
            topics.append({"name": "t%d" % i, "leaders": parts, "magic": draw(st.sampled_from([0, 1]))})
        disc = draw(st.sampled_from(["off", "on", "on", "on", "silent", "error"]))
        if batching == "always":
            batch = True
        elif batching == "never":
            batch = False
        else:
            batch = draw(st.booleans())
        n, b, t = 1, 1, None
        if batch:
            n = draw(st.sampled_from([0, 1, 2, 5]))
            b = draw(st.sampled_from([0, 10, 200]))
            t = draw(st.sampled_from([0, 0.53, 2.17]))
            if not (n or b or t):
                n = 2
        return {
            "brokers": nb, "topics": topics, "timeout_ms": draw(st.sampled_from([1000, 1000, 10000])), "dot": draw(st.booleans()),
            "discovery": disc, "table": draw(st.sampled_from(["dense", "dense", "sparse", "fetch-first", "shuffled"])),
            "pmax": draw(st.sampled_from([2, 2, 3, 7])), "fmax": draw(st.sampled_from([2, 4])), "bootstrap": [0], "rseed": draw(st.integers(0, 999)),
            "acks": draw(st.sampled_from([1, 1, -1, 0])), "batch": batch, "every_n": n, "every_b": b, "every_t": t,
            "codec": draw(st.sampled_from([0, 0, 1])), "max_attempts": draw(st.integers(1, 4)), "retry_interval": draw(st.sampled_from([0.05, 0.25])),
            "hashed": draw(st.sampled_from([False, False, True])), "md_order": draw(st.sampled_from(_cl.MD_ORDERS)),
            "client_id": draw(st.sampled_from(_cl.CLIENT_IDS)),
        }

    return cfg()


class Send(object):
    def __init__(self, no, topic, key, msgs, w, evseq):
        self.no = no
        self.topic = topic
        self.key = key
        self.msgs = msgs
        self.time = w.now
        self.step = w.step_no
        self.evseq = evseq
        self.watch = None
        self.batch = None
        self.cancelled_at = None
        self.appearances = []  # write records containing this send
        self.nbytes = sum(len(m) for m in msgs if m is not None)
        self.checked = False
        self.raised = None


class PRODEngine(Engine):
    NAME = "PROD"
    BATCHING = "mixed"
    MACROS = ["partial", "partial", "exhaust", "leadermove", "sendduringretry", "stopinflight", "burst"]
    MACRO_ONE_IN = 6

    @classmethod
    def config_strategy(cls):
        return config_strategy(cls.BATCHING)

    def __init__(self, config, ctx, props=None):
        Engine.__init__(self, config, ctx, props)
        from afkak import Producer
        from afkak.partitioner import HashedPartitioner, RoundRobinPartitioner

        self.world, self.cluster, self.client, _ = _cl.build(config)
        w = self.world
        self.timeout = config["timeout_ms"] / 1000.0
        self.tnames = [t["name"] for t in config["topics"]]
        eng = self
        self.selections = {}  # topic -> [(partition list, result, partitioner instance id, evseq)]

        # the partitioner is a documented extension point (partitioner_class): observing subclasses record every selection the producer asks for
        class ObservedRoundRobin(RoundRobinPartitioner):
            def partition(self, key, partitions):
                res = RoundRobinPartitioner.partition(self, key, partitions)
                eng._selected("rr", self, key, partitions, res)
                return res

        class ObservedHashed(HashedPartitioner):
            def partition(self, key, partitions):
                res = HashedPartitioner.partition(self, key, partitions)
                eng._selected("hashed", self, key, partitions, res)
                return res

        kw = dict(req_acks=config["acks"], max_req_attempts=config["max_attempts"], retry_interval=config["retry_interval"],
                  codec=config["codec"] or None, partitioner_class=ObservedHashed if config["hashed"] else ObservedRoundRobin)
        if config["batch"]:
            kw.update(batch_send=True, batch_every_n=config["every_n"], batch_every_b=config["every_b"], batch_every_t=config["every_t"])
        self.t0 = w.now
        self.producer = Producer(self.client, **kw)
        self.factor = getattr(Producer, "RETRY_INTERVAL_FACTOR", None)
        self.sends = []
        self.writes = []  # produce writes (client view)
        self.other_writes = []  # (evseq, time, api)
        self.batches = []  # [{"no", "dispatch_evseq", "sends": [...], ...}]
        self.evseq = 0
        self.stopped = False
        self.stop_evseq = None
        self.stop_watch = None
        self.script = []
        self.nt = set()
        self.faults = 0
        self.metadata_faults = 0
        self.model_uncertain = False
        self.hard_faults = 0
        self.last_fault_evseq = 0
        self.checked_writes = 0
        self.rounds = []
        w.on_write = self._on_write
        orig_spr = self.client.send_produce_request

        def send_produce_request(payloads=None, *a, **k):
            rnd = {"no": len(self.rounds), "call_evseq": self.evseq, "call_time": w.now, "keys": [(p.topic, p.partition) for p in (payloads or [])],
                   "tps": set(), "frames": [], "done": None, "objs": list(payloads or [])}
            # a retry passes (a subset of) the very payload objects of the batch's first call: same batch
            for prev in reversed(self.rounds):
                if prev.get("chain") is not None and rnd["objs"] and all(any(o is q for q in prev["objs"]) for o in rnd["objs"]):
                    rnd["chain"] = prev["chain"]
                    break
            else:
                rnd["chain"] = rnd["no"]
            self.rounds.append(rnd)
            d = orig_spr(payloads, *a, **k)

            def done(result, rnd=rnd):
                rnd["done"] = (self.evseq, w.now)
                # did this round leave payloads to retry?  (a failure, or any error-coded response)
                try:
                    rnd["failed"] = hasattr(result, "check") or any(getattr(r, "error", 0) != 0 for r in (result or []))
                except Exception:  # noqa
                    rnd["failed"] = True
                return result

            d.addBoth(done)
            return d

        self.client.send_produce_request = send_produce_request

    # ------------------------------------------------------------------ generator
    def _msgs_spec(self, draw):
        n = draw(st.integers(1, 4))
        kinds = ["t"] + [draw(st.sampled_from(["t", "t", "t", "n", "e", "p", "L" if draw(st.integers(0, 15)) == 0 else "t"])) for _ in range(n - 1)]
        return "".join(kinds)

    def _macro(self, draw):
        nb = self.config["brokers"]
        kind = draw(st.sampled_from(self.MACROS))
        ti = draw(st.integers(0, len(self.tnames) - 1))
        nparts = len(self.config["topics"][ti]["leaders"])
        b = draw(st.integers(1, nb))
        code = draw(st.sampled_from(PCODES))
        k = draw(st.integers(1, 4))

        def send(spec="t"):
            return ["send", ti, draw(st.sampled_from([-1, -1, 0, 1, 2])), spec]

        warm = [send(), ["run", 30]]
        if kind == "unroutable":
            # several sends to a topic that does not exist, close together (their partition lookups overlap), then a good one
            nosuch = ["send", len(self.tnames), -1, "t"]
            return [nosuch, nosuch, ["send", len(self.tnames), 0, "tt"], nosuch, ["run", draw(st.integers(4, 30))], send(), ["run", 30], ["timer"], ["run", 20], ["timer"], ["run", 20]]
        if kind == "outage":
            # a broker refuses connections for longer than the request timeout (sends to its partitions fail, nothing stays queued on its
            # broker client while that keeps dialling), then accepts again
            seq = warm + [["refuse", b], ["drop", 0], ["drop", 0], ["drop", 0], send(), send(), ["run", 12]]
            for _ in range(draw(st.integers(2, 7))):
                seq += [["wait", draw(st.sampled_from([4, 5, 6, 6]))], ["run", 12]]
            return seq + [["refuse", b], send(), ["run", 20], ["wait", 5], ["run", 20], ["wait", 6], ["run", 20]]
        if kind == "partial":
            # several partitions in one batch, an error code on one of them for the next k attempts
            p = draw(st.integers(0, nparts - 1))
            return warm + [["err", b, code, k, ti, p]] + [send() for _ in range(draw(st.integers(2, 5)))] + [["run", 20], ["timer"], ["run", 20], ["timer"], ["run", 20]]
        if kind == "exhaust":
            return warm + [["err", b, code, 6, ti, -1], send("tt"), ["run", 12], ["timer"], ["run", 12], ["timer"], ["run", 12], ["timer"], ["run", 12], ["timer"], ["run", 12]]
        if kind == "leaderless":
            # one partition loses its leader (election in progress); the client learns of it at its next metadata reload and keeps
            # sending keyed and unkeyed messages to the topic meanwhile
            p = draw(st.integers(0, nparts - 1))
            return warm + [["leader", ti, p, -1]] + [send() for _ in range(draw(st.integers(2, 4)))] + [["run", 14], ["timer"], ["run", 20]] + [send() for _ in range(draw(st.integers(3, 6)))] + [["run", 20], ["timer"], ["run", 20]]
        if kind == "leadermove":
            p = draw(st.integers(0, nparts - 1))
            return warm + [["leader", ti, p, b], send(), send(), ["run", 14], ["timer"], ["run", 20], send(), ["run", 20]]
        if kind == "sendduringretry":
            return warm + [["err", b, code, k, ti, -1], send(), ["run", 12], send(), send(), ["timer"], ["run", 12], ["timer"], ["run", 20]]
        if kind == "cancelqueued":
            # fill the thresholds so that a batch goes out and is held in flight; queue one more send and cancel it while
            # it is queued; let the batch finish; then approach the thresholds again
            fill = [send("tp") for _ in range(draw(st.integers(2, 6)))]
            victim = send(draw(st.sampled_from(["tn", "tnn", "tp", "t", "tnp"])))
            after = [send(draw(st.sampled_from(["t", "t", "tn"]))) for _ in range(draw(st.integers(1, 5)))]
            return warm + [["hold", b]] + fill + [["run", 4], victim, ["cancel_last", 0], ["run", 4], ["release", 0], ["run", 20]] + after + [["run", 12], ["wait", 3], ["run", 12]]
        if kind == "holdburst":
            return warm + [["hold", b]] + [send(draw(st.sampled_from(["t", "tt", "tp", "tn"]))) for _ in range(draw(st.integers(2, 6)))] + [["run", 6], ["release", 0], ["run", 20], ["wait", 3], ["run", 12]]
        if kind == "stopinflight":
            return warm + [["hold", b], send(), send(), ["run", 6], send(), ["stop"], ["release", 0], ["run", 10]]
        return warm + [send(draw(st.sampled_from(["t", "tn", "te", "tp"]))) for _ in range(draw(st.integers(3, 7)))] + [["run", 30]]

    def draw_step(self, draw):
        w = self.world
        if self.script:
            return self.script.pop(0)
        if not self.stopped and draw(st.integers(0, self.MACRO_ONE_IN - 1)) == 0:
            self.script = self._macro(draw)
            return self.script.pop(0)
        ops = []
        if not self.stopped:
            ops += ["send"] * 6
            if any(s.watch is not None and s.watch.state == "pending" for s in self.sends):
                ops += ["cancel"]
            if len(self.trace) > 5:
                ops += ["stop"]
        if w.pending():
            ops += ["run"] * 6 + ["ev"]
        if w.pending("connect"):
            ops += ["conn"]
        if w.next_timer() is not None:
            ops += ["timer", "timer", "wait"]
        ops += ["err", "err", "hold", "down", "up", "leader", "mderr", "refuse"]
        if self.cluster.held:
            ops += ["release", "release"]
        if w.live_conns():
            ops += ["drop"]
        op = draw(st.sampled_from(ops))
        nb = self.config["brokers"]
        nt = len(self.tnames)
        if op == "send":
            return ["send", draw(st.integers(0, nt - 1 + (1 if draw(st.integers(0, 19)) == 0 else 0))), draw(st.sampled_from([-1, -1, -1, 0, 1, 2, 3])), self._msgs_spec(draw)]
        if op == "cancel":
            return ["cancel", draw(st.integers(0, 40))]
        if op == "run":
            return ["run", draw(st.integers(1, 12))]
        if op == "ev":
            return ["ev", draw(st.sampled_from(["srv", "dlv", "lost", "connect"])), draw(st.integers(0, 5))]
        if op == "conn":
            return ["conn", draw(st.integers(0, 3)), draw(st.sampled_from(["accept", "refuse"]))]
        if op == "wait":
            return ["wait", draw(st.integers(0, len(WAITS) - 1))]
        if op == "err":
            return ["err", draw(st.integers(1, nb)), draw(st.sampled_from(PCODES)), draw(st.integers(1, 5)), draw(st.integers(0, nt - 1)), draw(st.integers(-1, 3))]
        if op == "hold":
            return ["hold", draw(st.integers(1, nb))]
        if op == "release":
            return ["release", draw(st.integers(0, 4))]
        if op == "drop":
            return ["drop", draw(st.integers(0, 5))]
        if op in ("down", "up", "refuse"):
            return [op, draw(st.integers(1, nb))]
        if op == "leader":
            return ["leader", draw(st.integers(0, nt - 1)), draw(st.integers(0, 3)), draw(st.integers(1, nb))]
        if op == "mderr":
            return ["mderr", draw(st.integers(0, nt - 1)), draw(st.sampled_from([0, 5, 3]))]
        return [op]

    # ------------------------------------------------------------------ observation
    def _selected(self, kind, inst, key, partitions, res):
        """C18 through the producer (which keeps one partitioner per topic and passes the current partition list): record only"""
        from afkak.partitioner import HashedPartitioner

        L = tuple(partitions)
        seq = self.selections.setdefault(inst.topic, [])
        seq.append((L, res, id(inst), self.evseq))
        if res not in L:
            self.note("C18.in-range", "C18.in-range/through-producer", "partitioner for %r returned %r, not a member of the supplied list %r" % (inst.topic, res, L))
            return
        if kind == "hashed":
            want = HashedPartitioner("other", list(L)).partition(key, list(L))
            if res != want:
                self.note("C18.hashed-java-colocation", "C18.hashed/through-producer-depends-on-more-than-key-and-list", "key %r over %r selected %r; a fresh partitioner selects %r" % (key, L, res, want))
            return
        n = len(L)
        if n == 0:
            return
        # fairness is over the topic's partitions: the producer hands the partitioner the client's list, which is ascending whatever
        # order the broker listed them in (a list in another order is the same set of partitions and must not restart or skew the cycle)
        seg = []
        for x in reversed(seq):
            if sorted(x[0]) != sorted(L):
                break
            seg.append(x)
        if len(seg) >= n:
            window = [x[1] for x in seg[:n]]
            self.nt.add("producer-round-robin-window-checked") if len(seg) > n else None
            if any(m[1] == "metadata" and m[0] > seg[min(len(seg), 2 * n) - 1][3] for m in self.other_writes):
                self.nt.add("round-robin-window-across-metadata-reload")
            if sorted(window) != sorted(L):
                self.note("C18.rr-fair-window", "C18.rr-fair-window/through-producer", "topic %r: the last %d consecutive selections over the unchanged list %r are %r (oldest first) - not each partition once%s" % (
                    inst.topic, n, L, list(reversed(window)), "; the producer used %d partitioner instances for this topic" % len(set(x[2] for x in seq)) if len(set(x[2] for x in seq)) > 1 else ""))

    def _on_write(self, conn, frame):
        try:
            req = rp.parse_request(frame)
        except rp.GrammarError as e:
            what = str(e)
            kind = "magic" if "magic" in what else "crc" if "CRC" in what else "trailing" if "trailing" in what else "other"
            self.note("C04.grammar", "C04.grammar/end-to-end/%s" % kind, "the producer wrote a request the strict parser rejects: %s" % what)
            return
        if self.stopped and req["api"] == "produce":
            self.note("C19.stop-transmits-nothing", "C19.produce-after-stop", "a produce request was written after Producer.stop()")
        if req["api"] != "produce":
            self.other_writes.append((self.evseq, self.world.now, req["api"]))
            return
        payloads = {}
        for t in req["topics"]:
            for p in t["partitions"]:
                flat = []
                for r in p["records"]:
                    if r["inner"] is not None:
                        flat += [(x["key"], x["value"]) for x in r["inner"]]
                    else:
                        flat.append((r["key"], r["value"]))
                payloads[(t["topic"], p["partition"])] = flat
        rec = {"evseq": self.evseq, "time": self.world.now, "conn": conn, "node": conn.userdata.get("node"), "req": req, "payloads": payloads, "frame": frame,
               "corr": req["correlation_id"], "round": self.rounds[-1] if self.rounds else None, "plist": dict((t, list(self.client.topic_partitions.get(t, []))) for t in set(k[0] for k in payloads))}
        self.writes.append(rec)

    def _mkmsgs(self, no, spec):
        out = []
        for i, k in enumerate(spec):
            if k == "t":
                out.append(b"s%d:%d" % (no, i))
            elif k == "p":
                out.append(b"s%d:%d" % (no, i) + b"." * 150)
            elif k == "L":
                out.append(b"s%d:%d" % (no, i) + b"L" * 70000)
            elif k == "n":
                out.append(None)
            else:
                out.append(b"")
        return out

    def do(self, step):
        w, cl = self.world, self.cluster
        op = step[0]
        if op == "send":
            if self.stopped:
                return
            topic = self.tnames[step[1]] if step[1] < len(self.tnames) else "nosuch"
            no = len(self.sends)
            key = None if step[2] < 0 else b"k%d" % step[2]
            if self.config["hashed"] and key is None:
                key = b"k%d" % (no % 4)
            self.evseq += 1
            s = Send(no, topic, key, self._mkmsgs(no, step[3]), w, self.evseq)
            self.sends.append(s)
            try:
                d = self.producer.send_messages(topic, key=key, msgs=list(s.msgs))
            except Exception as e:  # noqa
                s.raised = e
                self.note("C01.returns-deferred", "C01.send-raised/%s" % type(e).__name__, "send_messages raised %r" % e)
                return
            s.watch = simnet.Watch(d, w, "send%d" % no)
            s.watch.silence()
            if self.config["batch"] and self._in_flight():
                q = self._queue()
                if (self.config["every_n"] and sum(len(x.msgs) for x in q) >= self.config["every_n"]) or (self.config["every_b"] and sum(x.nbytes for x in q) >= self.config["every_b"]):
                    self.nt.add("threshold-met-while-batch-in-flight")
            if any(x.cancelled_at is not None and getattr(x, "cancel_before_dispatch", False) for x in self.sends):
                self.nt.add("cancel-queued-then-more-sends")
            self._after_event()
        elif op in ("cancel", "cancel_last"):
            pend = [s for s in self.sends if s.watch is not None and s.watch.state == "pending"]
            if not pend:
                return
            s = pend[step[1] % len(pend)] if op == "cancel" else pend[-1]
            self.evseq += 1
            s.cancelled_at = self.evseq
            # "before dispatch" is certain only when a dispatch would have been a synchronous write (warm)
            # - for every topic with a send still pending: a batch is taken off the queue as a whole, and one cold topic in it (leader
            # down, metadata being reloaded) keeps the whole batch from being written although it has been dispatched
            s.cancel_before_dispatch = not s.appearances and s.batch is None and all(self._warm(t) for t in set(x.topic for x in pend))
            self.labels.add("cancel-queued" if s.cancel_before_dispatch else "cancel-after-dispatch")
            s.watch.d.cancel()
            self._after_event()
        elif op == "stop":
            if self.stopped:
                return
            self._do_stop()
        elif op == "run":
            for _ in range(step[1]):
                p = w.pending()
                if not p:
                    break
                self._process(p[0])
        elif op == "ev":
            p = w.pending(step[1])
            if p:
                self._process(p[step[2] % len(p)])
        elif op == "conn":
            p = w.pending("connect")
            if p:
                self._process(p[step[1] % len(p)], step[2])
        elif op == "timer":
            self._timer()
        elif op == "wait":
            target = w.now + WAITS[step[1] % len(WAITS)]
            n = 0
            while n < 300:
                nt = w.next_timer()
                if nt is None or nt[0] > target:
                    break
                self._timer()
                n += 1
            w.set_time(target)
        elif op == "err":
            t = self.tnames[step[4] % len(self.tnames)]
            pid = None if step[5] < 0 else step[5]
            cl.override(step[1], "produce", step[2], step[3], t, pid)
            self._fault("fault:error-code")
        elif op == "hold":
            cl.hold(step[1], "produce", 1)
            self._fault("fault:held-reply")
        elif op == "release":
            if cl.release(step[1]):
                self.labels.add("late-or-held-reply-released")
        elif op == "drop":
            lc = w.live_conns()
            if lc:
                lc[step[1] % len(lc)].drop()
                self._fault("fault:drop")
        elif op == "down":
            if sum(1 for b in cl.brokers.values() if b.up) > 1:
                cl.broker_down(step[1])
                self._fault("fault:broker-down")
        elif op == "up":
            cl.broker_up(step[1])
            for parts in cl.topics.values():
                for p in parts.values():
                    if p.leader == -1:
                        p.leader = step[1]
        elif op == "refuse":
            cl.refusing[step[1]] = not cl.refusing.get(step[1])
            self._fault("fault:refuse-connects")
        elif op == "leader":
            t = self.tnames[step[1] % len(self.tnames)]
            parts = cl.topics[t]
            parts[step[2] % len(parts)].leader = step[3]
            self._fault("fault:leader-move")
        elif op == "mderr":
            t = self.tnames[step[1] % len(self.tnames)]
            if step[2]:
                cl.topic_errors[t] = step[2]
                self.metadata_faults += 1
                self._fault("fault:topic-metadata-error")
            else:
                cl.topic_errors.pop(t, None)

    def _fault(self, label):
        self.faults += 1
        if label != "fault:held-reply":
            # the "never late" clauses of the batching model are evaluated only in histories whose only disturbance is
            # held (slow) replies: with other faults the instant at which the producer can dispatch is not observable
            self.hard_faults += 1
        self.last_fault_evseq = self.evseq
        self.labels.add(label)

    def _timer(self):
        self.evseq += 1
        self.world.fire_next_timer()
        self._after_event()

    def _process(self, ev, action=None):
        self.evseq += 1
        kind = ev.kind
        nconn = len(self.world.conns)
        self.world.process(ev, action)
        for c in self.world.conns[nconn:]:
            c.userdata["open_evseq"] = self.evseq
        self._after_event()
        if kind == "connect":
            target = self.world.now + CONNECT_LATENCY
            n = 0
            while n < 50:
                nt = self.world.next_timer()
                if nt is None or nt[0] > target:
                    break
                self._timer()
                n += 1
            self.world.set_time(target)

    def _do_stop(self):
        from twisted.internet.defer import CancelledError as TCancelled

        from afkak.common import CancelledError as ACancelled

        w = self.world
        self.evseq += 1
        pend = [s for s in self.sends if s.watch is not None and s.watch.state == "pending"]
        inflight = any(s.appearances for s in pend)
        queued = any(not s.appearances for s in pend)
        if inflight and queued:
            self.nt.add("stop-with-inflight-batch-and-queue")
        if inflight:
            self.nt.add("stop-with-request-in-flight")
        self.stopped = True
        self.stop_evseq = self.evseq
        try:
            d = self.producer.stop()
        except Exception as e:  # noqa
            self.note("C19.stop", "C19.stop-raised/%s" % type(e).__name__, "Producer.stop() raised %r" % e)
            return
        if d is not None:
            self.stop_watch = simnet.Watch(d, w, "stop")
            self.stop_watch.silence()
        for s in pend:
            if s.watch.state == "pending":
                self.note("C19.stop-fails-outstanding", "C19.stop-left-send-pending", "send #%d still pending after Producer.stop() returned" % s.no)
                self.note("C01.stop-fails", "C01.stop-left-send-pending", "send #%d still pending after Producer.stop() returned" % s.no)
            elif s.watch.state == "ok":
                # the acknowledgement had already reached the client (the produce round was merely incomplete): reporting
                # it is truthful - C01 judges whether it is justified; counted, not flagged (see DESIGN.md, C19)
                self.labels.add("stop-reported-an-acknowledged-send")
            elif not s.watch.value.check(TCancelled, ACancelled):
                from afkak.common import BrokerResponseError

                if s.appearances and s.watch.value.check(BrokerResponseError):
                    # the broker's (error) answer had already reached the client: reporting it is truthful; counted only
                    self.labels.add("stop-reported-a-broker-error")
                    continue
                state = "in-flight" if s.appearances else "before-transmission"
                self.note("C19.stop-fails-outstanding", "C19.stop-wrong-error/%s" % state, "send #%d (%s) outstanding at stop() failed with %s, not a cancellation error" % (s.no, state, s.watch.value.type.__name__))
        self._after_event()

    def _warm(self, topic):
        """a dispatch for this topic would be written synchronously: version discovery done, topic metadata cached
        without error, every partition leader's connection up"""
        from afkak.common import TopicAndPartition

        c = self.client
        if not self.writes or topic not in c.topic_partitions or c.metadata_error_for_topic(topic) != 0:
            return False
        for p in c.topic_partitions[topic]:
            bm = c.topics_to_brokers.get(TopicAndPartition(topic, p))
            if bm is None:
                return False
            if not any(getattr(x.attempt.factory, "node_id", None) == bm.node_id and x.open_for_client for x in self.world.conns):
                return False
        return True

    def _batch_resolved(self, b):
        if any(s.watch is not None and s.watch.state == "pending" for s in b["sends"]):
            return False
        rounds = [r for r in self.rounds if r.get("batch") is b]
        if not rounds or rounds[-1]["done"] is None:
            return False
        # a failed round with attempts left is followed by a retry even if every sender has meanwhile been cancelled
        return not rounds[-1].get("failed") or len(rounds) >= self.config["max_attempts"] or self.stopped

    def _in_flight(self):
        return any(not self._batch_resolved(b) for b in self.batches) or any(r.get("batch") is None and r["done"] is None for r in self.rounds)

    def _queue(self):
        """sends the documented behaviour says are waiting in the batch queue (uncancelled, never transmitted, unfired)"""
        return [s for s in self.sends if s.watch is not None and s.watch.state == "pending" and not s.appearances and s.batch is None]

    def _check_batching(self):
        cfg = self.config
        if not cfg["batch"] or self.stopped:
            return
        n, b, T = cfg["every_n"], cfg["every_b"], cfg["every_t"]
        w = self.world
        q = self._queue()
        warm = all(self._warm(s.topic) for s in q) if q else False
        inflight = self._in_flight()
        if inflight:
            self._last_inflight_time = w.now
        # (1) never early: a new batch starts only when a trigger holds
        for bt in self.batches:
            if bt.get("_justified"):
                continue
            bt["_justified"] = True
            first = min((r for r in self.rounds if r.get("batch") is bt), key=lambda r: r["no"])
            if first["call_evseq"] != bt["dispatch_evseq"]:
                continue  # cold dispatch (lookups in between): the trigger instant is not observable
            e = bt["dispatch_evseq"]
            # Was the batch transmitted in the very event that triggered it (a send, or the completion of the previous
            # batch)?  Then the queue at that instant is known exactly.  Otherwise partition lookups lay between the
            # trigger and the transmission and only an over-approximation of the queue is known (sends cancelled in
            # between are counted), which keeps this clause sound.
            sync = any(s.evseq == e for s in self.sends) or any(r["done"] is not None and r["done"][0] == e for r in self.rounds if r.get("batch") is not None and r["batch"]["no"] < bt["no"])
            earlier = set(x for b2 in self.batches if b2["no"] < bt["no"] for x in b2["sends"])
            if sync:
                members = [s for s in self.sends if s.evseq <= e and s not in earlier and (s.batch is bt or (s.batch is None and not s.appearances and (s.cancelled_at is None or s.cancelled_at > e)
                                                                                                   and getattr(s, "fired_evseq", 10 ** 9) >= e))]
            else:
                members = [s for s in self.sends if s.evseq <= e and s not in earlier and (s.batch is bt or s.batch is None)]
            cnt = sum(len(s.msgs) for s in members)
            byt = sum(s.nbytes for s in members)
            # the batch may have been taken from the queue at a tick and transmitted later (partition lookups in
            # between): any tick between its newest member's send and the transmission justifies it
            t_lo = max([s.time for s in members if s.batch is bt] + [self.t0])
            on_tick = False
            if T:
                k = int((t_lo - self.t0) / T)
                while self.t0 + k * T <= bt["dispatch_time"] + 1e-9:
                    if self.t0 + k * T >= t_lo - 1e-9 and k > 0:
                        on_tick = True
                        break
                    k += 1
            if (n and cnt >= n) or (b and byt >= b):
                if any(getattr(x, "_prev_inflight_at", None) == bt["dispatch_evseq"] for x in [self]):
                    self.nt.add("threshold-met-while-batch-in-flight")
            elif on_tick:
                self.nt.add("tick-dispatch")
            else:
                self.note("C19.dispatch-needs-trigger", "C19.dispatched-without-trigger", "batch #%d (sends %r: %d messages, %d bytes) was transmitted at t=%.3f although neither threshold (n=%r, bytes=%r) was met and it was not a tick of the %rs timer" % (bt["no"], [s.no for s in bt["sends"]], cnt, byt, bt["dispatch_time"], n, b, T))
        # (2)/(3) never late - only while the model is certain which sends the producer still holds in its queue: a send
        # that fired without ever being transmitted (cancelled while a dispatch may have been looking up partitions, or
        # failed lookup) may belong to a batch that is in flight without having written anything
        for s in self.sends:
            if s.watch is not None and s.watch.state != "pending" and not s.appearances and not getattr(s, "cancel_before_dispatch", False):
                self.model_uncertain = True
        if not q or not warm or inflight or self.model_uncertain or self.hard_faults:
            return
        cnt = sum(len(s.msgs) for s in q)
        byt = sum(s.nbytes for s in q)
        if not w.pending():
            if (n and cnt >= n) or (b and byt >= b):
                self.note("C19.dispatch-at-first-moment", "C19.threshold-met-not-dispatched", "no batch in flight, metadata warm, yet sends %r (%d messages, %d bytes) sit in the queue with thresholds n=%r bytes=%r" % ([s.no for s in q], cnt, byt, n, b))
        if T and not w.pending():
            # (with undelivered network events pending, a dispatch may be under way - e.g. waiting for a metadata reply - without
            # having written a produce request yet: the verdict waits until the harness has delivered them)
            # the in-flight batch the wait is counted from: last instant a batch was seen in flight, and no earlier than the last
            # transmission (a batch written and resolved within one event - acks=0 - is never *seen* in flight)
            r = max([getattr(self, "_last_inflight_time", self.t0)] + [bt["dispatch_time"] for bt in self.batches] + [x["call_time"] for x in self.rounds[-3:]])
            for s in q:
                if w.now > max(s.time, r) + T + 1e-9:
                    self.note("C19.time-limit", "C19.waited-longer-than-one-period", "send #%d queued at t=%.3f (last batch resolved t=%.3f) is still not dispatched at t=%.3f with every_t=%r" % (s.no, s.time, r, w.now, T))
                    break

    # ------------------------------------------------------------------ oracles
    def _locate(self, s, flat):
        """index at which send s's messages start in a payload's (key, value) list, or None"""
        first = s.msgs[0]
        for i, (k, v) in enumerate(flat):
            if v == first:
                return i
        return None

    def _digest_writes(self):
        """attribute newly seen produce writes to sends and batches; C09 order / one-batch-at-a-time clauses"""
        new = self.writes[self.checked_writes:]
        self.checked_writes = len(self.writes)
        for rec in new:
            rec["sends"] = {}
            rec["after_stop"] = self.stopped and rec["evseq"] >= (self.stop_evseq or 0)
            for tp, flat in rec["payloads"].items():
                found = []
                used = [False] * len(flat)
                for s in self.sends:
                    if s.topic != tp[0]:
                        continue
                    i = self._locate(s, flat)
                    if i is None:
                        continue
                    seg = flat[i : i + len(s.msgs)]
                    if [v for _, v in seg] != s.msgs or any(k != s.key for k, _ in seg):
                        self.note("C01.same-messages", "C01.payload-altered", "send #%d %r key %r appears in a produce payload as %.200r" % (s.no, s.msgs, s.key, seg))
                        self.note("C09.one-payload-per-attempt", "C09.payload-altered", "send #%d %r key %r appears in a produce payload as %.200r" % (s.no, s.msgs, s.key, seg))
                    if sum(1 for _, v in flat if v == s.msgs[0]) > 1:
                        self.note("C09.one-payload-per-attempt", "C09.message-twice-in-payload", "send #%d occurs twice in the payload for %r" % (s.no, tp))
                    for j in range(i, min(i + len(s.msgs), len(flat))):
                        used[j] = True
                    found.append((i, s))
                found.sort(key=lambda x: x[0])
                order = [s.no for _, s in found]
                if order != sorted(order):
                    self.note("C09.send-order", "C09.send-order/within-payload", "payload for %r carries sends in order %r (call order is ascending)" % (tp, order))
                if not all(used):
                    self.note("C01.same-messages", "C01.foreign-message-in-payload", "payload for %r contains messages of no send: %.200r" % (tp, [flat[j] for j in range(len(flat)) if not used[j]]))
                rec["sends"][tp] = [s for _, s in found]
                for _, s in found:
                    if any(tp in r["sends"] and s in r["sends"][tp] for r in s.appearances if r is not rec and r["corr"] == rec["corr"] and r["frame"] == rec["frame"]):
                        continue  # same frame re-sent by the broker client after a reconnect
                    s.appearances.append(rec)
                    if not hasattr(s, "tp"):
                        s.tp = tp
                    elif s.tp != tp:
                        s.tp_changed = True
                    if s.cancelled_at is not None and getattr(s, "cancel_before_dispatch", False):
                        self.note("C19.cancel-before-dispatch", "C19.cancelled-send-transmitted", "send #%d was cancelled before dispatch but its messages were transmitted" % s.no)
                    # C18 end-to-end: hashed partition choice
                    if self.config["hashed"] and s.key is not None and len(s.appearances) == 1:
                        plist = rec["plist"].get(tp[0]) or []
                        if plist:
                            # the Java client numbers a topic's partitions 0..n-1 and takes hash % n as the partition id: the order in
                            # which a broker happened to list them must not matter
                            want = sorted(plist)[(_jvm._fallback(s.key) & 0x7FFFFFFF) % len(plist)]
                            if want != tp[1]:
                                self.note("C18.hashed-java-colocation", "C18.end-to-end-partition", "send #%d key %r went to partition %r; Java murmur2 selects %r of %r" % (s.no, s.key, tp[1], want, plist))
            # produce rounds: the producer has at most one send_produce_request call in progress, so a produce frame
            # belongs to the most recent such call (observed by wrapping that public client method)
            rnd = rec.get("round")
            if rnd is not None and rec not in rnd["frames"]:
                rnd["tps"] |= set(rec["payloads"])
                rnd["frames"].append(rec)
                rnd.setdefault("first_evseq", rec["evseq"])
            # batches
            members = sorted(set(s for ss in rec["sends"].values() for s in ss), key=lambda s: s.no)
            fresh = [s for s in members if s.batch is None]
            if rnd is None:
                continue
            if rnd.get("batch") is None:
                old = [s.batch for s in members if s.batch is not None]
                if old:
                    rnd["batch"] = old[0]  # a retry round of an existing batch
                else:
                    # or the retry of a call whose own request for these payloads was never written
                    for prev in self.rounds:
                        if prev["chain"] == rnd["chain"] and prev.get("batch") is not None:
                            rnd["batch"] = prev["batch"]
                            break
            if fresh:
                if rnd.get("batch") is not None:
                    # requests of one round carry sends of one batch
                    for s in fresh:
                        s.batch = rnd["batch"]
                        rnd["batch"]["sends"].append(s)
                else:
                    # a new batch is being transmitted: every earlier batch must be resolved
                    for b in self.batches:
                        unresolved = [s.no for s in b["sends"] if s.watch is not None and s.watch.state == "pending"]
                        if unresolved and not rec["after_stop"]:
                            self.note("C09.one-batch-at-a-time", "C09.batch-dispatched-while-earlier-unresolved",
                                      "sends %r transmitted at t=%.3f while sends %r of an earlier batch are unresolved" % ([s.no for s in fresh], rec["time"], unresolved))
                            self.note("C19.dispatch-when-no-batch-in-flight", "C19.batch-dispatched-while-earlier-unresolved",
                                      "sends %r transmitted at t=%.3f while sends %r of an earlier batch are unresolved" % ([s.no for s in fresh], rec["time"], unresolved))
                            break
                    nb = {"no": len(self.batches), "dispatch_evseq": rec["evseq"], "dispatch_time": rec["time"], "sends": list(fresh), "rounds": []}
                    self.batches.append(nb)
                    rnd["batch"] = nb
                    for s in fresh:
                        s.batch = nb
            # order across requests for the same partition: an earlier send never first appears after a later one
            for tp, ss in rec["sends"].items():
                for s in ss:
                    if len(s.appearances) == 1 and s.appearances[0] is rec:
                        later_seen = [x.no for x in self.sends if x.no > s.no and getattr(x, "tp", None) == tp and x.appearances and x.appearances[0]["evseq"] < rec["evseq"] and x.cancelled_at is None]
                        if later_seen and s.cancelled_at is None:
                            self.note("C09.send-order", "C09.send-order/across-requests", "send #%d to %r first transmitted after later sends %r" % (s.no, tp, later_seen))

    def _acked(self, rec, tp):
        """the broker's answer for payload tp of produce write rec as the client received it: (code, reply info, ack) or None"""
        best = None
        for a in self.cluster.acks:
            # (matched by correlation id: the broker client may have re-sent the frame on a new connection)
            if a["topic"] == tp[0] and a["pid"] == tp[1] and a["reply"]["corr"] == rec["corr"]:
                if best is None or (self.cluster.delivered(a["reply"]) and not self.cluster.delivered(best["reply"])):
                    best = a
        return best

    def _received(self, rec, a, strict=True):
        """Was the reply carrying ack a delivered while the request was still outstanding at the client?  The client
        arms its timeout when the request is made; that instant is known exactly only when the connection was already
        up (request written at once).  strict=True answers True only in that case."""
        info = a["reply"]
        if info.get("no_reply") or not self.cluster.delivered(info):
            return False
        if self.stopped and info.get("deliv_evseq", 10 ** 9) >= (self.stop_evseq or 0):
            return False
        dt = info.get("deliv_time")
        if dt is None:
            return False
        if not strict:
            # could the client have accepted it?  (ties with the timeout timer are the scheduler's choice)
            return dt <= rec["time"] + self.timeout + 1e-9
        # must the client have accepted it?
        if rec["conn"].userdata.get("open_evseq", -1) >= rec["evseq"]:
            return False
        return dt < rec["time"] + self.timeout - 1e-9

    def _after_event(self):
        self._digest_writes()
        w = self.world
        # note delivery instants of replies
        for info in self.cluster.replies:
            if "deliv_evseq" not in info and self.cluster.delivered(info):
                info["deliv_evseq"] = self.evseq
                info["deliv_time"] = w.now
        for s in self.sends:
            if s.watch is None:
                continue
            if s.watch.extra_attempts:
                if s.cancelled_at is not None:
                    # C19: "cancelling later only detaches the caller" - the producer must skip the cancelled send, not fire it again
                    # (the AlreadyCalledError that raises inside the producer abandons whatever it was doing for the other sends)
                    self.note("C19.cancel-later-detaches", "C19.cancelled-send-fired-again", "send #%d was cancelled by its caller after dispatch; the producer later tried to fire its Deferred again: %r" % (s.no, s.watch.extra_attempts))
                self.note("C01.exactly-once", "C01.fired-twice", "send #%d: Deferred fired again: %r" % (s.no, s.watch.extra_attempts))
            if s.watch.state != "pending" and not s.checked:
                s.checked = True
                s.fired_evseq = self.evseq
                self._send_done(s)
        self._check_retries()
        self._check_batching()

    def _send_done(self, s):
        from afkak.common import ProduceResponse

        wt = s.watch
        acks = self.config["acks"]
        if wt.state != "ok":
            return
        v = wt.value
        if acks == 0:
            if v is not None:
                self.note("C01.acks0-no-value", "C01.acks0-value", "send #%d (acks=0) succeeded with %.100r instead of None" % (s.no, v))
            if not s.appearances:
                self.note("C01.acks0-after-handoff", "C01.acks0-success-before-write", "send #%d (acks=0) reported success but no produce request containing its messages was handed to a connection" % s.no)
            return
        if not isinstance(v, ProduceResponse):
            kind = "exception-instance" if isinstance(v, BaseException) else type(v).__name__
            self.note("C01.success-value", "C01.success-with-non-response/%s" % kind, "send #%d succeeded with %.160r, which is not a ProduceResponse" % (s.no, v))
            return
        if v.topic != s.topic or v.error != 0:
            self.note("C01.success-value", "C01.success-value-mismatch", "send #%d to %r succeeded with %r" % (s.no, s.topic, v))
            return
        tp = (v.topic, v.partition)
        good = False
        why = "no produce request for %r carried its messages" % (tp,)
        for rec in s.appearances:
            if tp not in rec["sends"] or s not in rec["sends"][tp]:
                continue
            a = self._acked(rec, tp)
            if a is None:
                why = "the broker never processed the request"
                continue
            if a["code"] != 0:
                why = "the broker answered error %d" % a["code"]
                continue
            if not a["was_leader"]:
                why = "the acknowledging broker did not lead the partition"
                continue
            if not self._received(rec, a, strict=False):
                why = "the acknowledgement was not delivered to the client in time"
                continue
            good = True
            if v.offset != a["base"]:
                self.labels.add("diag:offset-differs-from-base")
            break
        if not good:
            self.note("C01.truthful-success", "C01.success-without-acknowledgement", "send #%d reported success for %r but %s" % (s.no, tp, why))

    def _check_retries(self):
        """C09 (3)(5): acknowledged payloads are not re-sent and their senders are told before any retry goes out;
        attempts per payload never exceed the configured maximum"""
        maxa = self.config["max_attempts"]
        for s in self.sends:
            n = len(s.appearances)
            if n > maxa and not getattr(s, "_over", False) and not getattr(s, "tp_changed", False):
                s._over = True
                self.note("C09.attempt-limit", "C09.attempt-limit-exceeded", "send #%d transmitted in %d produce attempts, max_req_attempts=%d" % (s.no, n, maxa))
            if n >= 2 and not getattr(s, "_resent_checked", 0) == n:
                s._resent_checked = n
                prev, cur = s.appearances[-2], s.appearances[-1]
                tp = s.tp
                a = self._acked(prev, tp) if tp in prev["sends"] else None
                if a is not None and a["code"] == 0 and self.config["acks"] != 0 and self._received(prev, a) and a["reply"].get("deliv_evseq", 10 ** 9) < cur["evseq"]:
                    sib = [k for k in prev["payloads"] if k != tp]
                    self.nt.add("partial-failure-attempt")
                    self.note("C09.only-failed-retried", "C09.acknowledged-payload-resent", "send #%d for %r was acknowledged (error 0, reply delivered) in one attempt and transmitted again in the next (sibling payloads %r)" % (s.no, tp, sib))
        # senders of an acknowledged payload are told no later than the next produce round of their batch goes out
        for rec in self.writes:
            if rec.get("_ackcheck") or rec.get("round") is None:
                continue
            later = [r for r in self.writes if r.get("round") is not None and r["round"]["no"] > rec["round"]["no"]]
            if not later:
                continue
            done = True
            for tp, ss in rec["sends"].items():
                a = self._acked(rec, tp)
                if a is None or a["code"] != 0 or self.config["acks"] == 0 or not self._received(rec, a):
                    continue
                dv = a["reply"].get("deliv_evseq")
                nxt = [r for r in later if r["evseq"] > (dv or 0) and any(s.batch is ss[0].batch for x in r["sends"].values() for s in x)] if ss else []
                if not nxt:
                    done = False
                    continue
                for s in ss:
                    if s.watch is not None and (s.watch.state == "pending" or getattr(s, "fired_evseq", 0) > nxt[0]["evseq"]) and s.cancelled_at is None:
                        self.note("C09.acknowledged-reported-at-once", "C09.acknowledged-send-reported-late", "send #%d was acknowledged for %r (reply delivered at event %s) but its Deferred had not fired when the next produce round of its batch was transmitted at event %d" % (s.no, tp, dv, nxt[0]["evseq"]))
            if done:
                rec["_ackcheck"] = True
        self._check_delays()

    def _check_delays(self):
        """C09 (4): after a cleanly failed round (every request answered, some error code) the producer's next write comes
        exactly interval * factor**(a-1) later, a = number of failed rounds of the batch so far; it restarts per batch"""
        if self.metadata_faults or self.factor is None:
            return
        for i, rnd in enumerate(self.rounds):
            if rnd.get("_delay") or i + 1 >= len(self.rounds):
                continue
            nxt = self.rounds[i + 1]
            rnd["_delay"] = True
            frames = rnd["frames"]
            infos = []
            clean = True
            for rec in frames:
                for tp in rec["payloads"]:
                    a = self._acked(rec, tp)
                    if a is None or not self._received(rec, a) or len([x for x in self.cluster.acks if x["reply"]["corr"] == rec["corr"] and (x["topic"], x["pid"]) == tp]) != 1:
                        clean = False
                    else:
                        infos.append(a)
            if not clean or not infos or all(a["code"] == 0 for a in infos) or self.config["acks"] == 0:
                continue
            batch = None
            for rec in frames:
                for ss in rec["sends"].values():
                    for s in ss:
                        batch = s.batch
            if batch is None or not any(s.batch is batch for rec in nxt["frames"] for ss in rec["sends"].values() for s in ss):
                continue
            if any(s.topic == "nosuch" for s in batch["sends"]) or (self.stopped and nxt.get("first_evseq", nxt["call_evseq"]) >= (self.stop_evseq or 0)):
                continue
            t_fail = max(a["reply"]["deliv_time"] for a in infos)
            e_fail = max(a["reply"]["deliv_evseq"] for a in infos)
            nexts = [t for (e, t, api) in self.other_writes if e > e_fail] + [r["time"] for r in self.writes if r["evseq"] > e_fail]
            if not nexts:
                continue
            d = min(nexts) - t_fail
            a_no = 1 + sum(1 for r in self.rounds[:i] if r["chain"] == rnd["chain"])
            want = self.config["retry_interval"] * (self.factor ** (a_no - 1))
            self.nt.add("retry-delay-measured")
            if a_no >= 2:
                self.nt.add("second-retry-delay-measured")
            if d < want * (1 - 1e-6) - 1e-9:
                self.note("C09.geometric-backoff", "C09.retry-too-early", "batch #%d: retry after failed attempt %d came %.6fs later, expected %.6fs (interval %.3f x %.5f^%d)" % (batch["no"], a_no, d, want, self.config["retry_interval"], self.factor, a_no - 1))
            elif d > want * (1 + 1e-6) + 1e-9:
                first_next = min(self.writes + [], key=lambda r: (r["evseq"] <= e_fail, r["time"])) if False else None
                late_ok = any(r["evseq"] > e_fail and r["conn"].userdata.get("open_evseq", -1) > e_fail for r in self.writes if abs(r["time"] - min(nexts)) < 1e-12)
                only_produce = not any(e > e_fail and abs(t - min(nexts)) < 1e-12 for (e, t, api) in self.other_writes)
                if not (late_ok and only_produce):
                    self.note("C09.geometric-backoff", "C09.retry-too-late", "batch #%d: retry after failed attempt %d came %.6fs later, expected %.6fs (interval %.3f x %.5f^%d)" % (batch["no"], a_no, d, want, self.config["retry_interval"], self.factor, a_no - 1))
                _ = first_next

    def _quiet_phase(self):
        """faults stop; everything plays out"""
        w, cl = self.world, self.cluster
        for node, b in cl.brokers.items():
            if not b.up:
                cl.broker_up(node)
        cl.refusing.clear()
        cl.overrides = []
        cl.holds = []
        cl.topic_errors.clear()
        for parts in cl.topics.values():
            for p in parts.values():
                if p.leader == -1 or p.leader not in cl.brokers:
                    p.leader = sorted(cl.brokers)[0]
        while cl.held:
            cl.release(0)
        horizon = w.now + 12 * self.timeout * max(self.config["max_attempts"], 1) + 60.0
        n = 0
        while n < 5000:
            p = w.pending()
            if p:
                self._process(p[0])
            else:
                nt = w.next_timer()
                if nt is None:
                    return True
                if nt[0] > horizon:
                    return False
                self._timer()
            n += 1
            self.raise_noted()
        return False

    def finish(self):
        w, cl = self.world, self.cluster
        recovered = None
        if not self.stopped and self.faults:
            # C08 recovery: after the last fault, a fresh send must be acknowledged within the retry budget
            quiet = self._quiet_phase()
            if quiet and self.config["acks"] != 0:
                # "within the retry budget": a probe whose partition still has a stale leader cached may use its whole budget up on
                # learning that (one attempt is a legal budget); every such failure invalidates routing, so one of a few probes succeeds
                nprobe = len(self.config["topics"][0]["leaders"]) + 2
                for _ in range(nprobe):
                    self.apply_quiet(["send", 0, 0, "t"])
                    probe = self.sends[-1]
                    quiet2 = self._quiet_phase()
                    if not quiet2 or probe.watch is None or probe.watch.state != "err":
                        break
                    self.labels.add("recovery-probe-failed-once")
                if quiet2 and probe.watch is not None:
                    recovered = probe.watch.state == "ok"
                    if probe.watch.state == "pending" and not self.config["batch"]:
                        self.note("C08.recovery", "C08.producer-did-not-recover/pending", "a send issued after all faults ceased is still pending at quiescence")
                    elif probe.watch.state == "err" and not self.config["batch"]:
                        self.note("C08.recovery", "C08.producer-did-not-recover/%s" % probe.watch.value.type.__name__, "%d sends in a row issued after all faults ceased failed, the last with %s" % (nprobe, probe.watch.value.getErrorMessage()[:200]))
                    if recovered:
                        self.nt.add("recovered-after-faults")
        else:
            self._quiet_phase()
        if not self.stopped and not self.config["batch"] and not w.pending() and w.next_timer() is None:
            # C01: on an unbatched producer every send is dispatched as soon as the request before it has resolved; with all faults lifted
            # and nothing left to happen (no event, no timer) a send that is still pending has been forgotten - it will never fire
            for s in self.sends:
                if s.watch is not None and s.watch.state == "pending" and s.cancelled_at is None:
                    self.note("C01.exactly-once", "C01.send-forgotten", "send #%d (issued t=%.3f on an unbatched producer) is still pending although all faults are lifted and nothing is outstanding: it was never %s" % (
                        s.no, s.time, "transmitted" if not s.appearances else "resolved"))
                    break
        if not self.stopped:
            # C01: a send to a topic that does not exist fails with an exception - within the attempt budget, not never
            bound = 12 * self.timeout * max(self.config["max_attempts"], 1) + 60.0
            for s in self.sends:
                if s.topic not in self.tnames and s.watch is not None and s.watch.state == "pending" and s.cancelled_at is None and w.now - s.time > bound - 1e-6:
                    self.note("C01.unroutable-fails", "C01.unroutable-send-never-failed", "send #%d to the unknown topic %r was issued %.0f virtual seconds ago (faults lifted, attempt limit %r) and has neither failed nor succeeded" % (
                        s.no, s.topic, w.now - s.time, self.config["max_attempts"]))
                    break
            self._do_stop()
            self.raise_noted()
        quiet = self._quiet_phase()
        if not quiet:
            if self.stopped and w.afkak_calls() and not w.pending():
                # long after stop() (faults lifted, nothing on the wire) timers are still being re-armed
                self.note("C19.stop-transmits-nothing", "C19.timers-left-after-stop", "delayed calls still active long after stop(): %r" % [repr(d)[:100] for d in w.afkak_calls()[:3]])
                return
            self.ctx.inconclusive += 1
            self.labels.add("inconclusive-horizon")
            return
        for s in self.sends:
            if s.watch is not None and s.watch.state == "pending":
                self.note("C01.exactly-once", "C01.never-fired", "send #%d never fired, even after Producer.stop() and quiescence" % s.no)
        if cl.field_errors:
            self.note("C04.fields", "C04.fields/header/client-id", cl.field_errors[0])
        if cl.grammar_errors:
            g = cl.grammar_errors[0]
            kind = "magic" if "magic" in g["error"] else "crc" if "CRC" in g["error"] else "other"
            self.note("C04.grammar", "C04.grammar/produce-end-to-end/%s" % kind, "request rejected by the strict parser: %s" % g["error"])
        self._check_versions()
        left = w.afkak_calls()
        if left:
            self.note("C19.stop-transmits-nothing", "C19.timers-left-after-stop", "delayed calls left after stop and quiescence: %r" % [repr(d)[:100] for d in left[:3]])
        multi = sum(1 for s in self.sends if len(s.appearances) >= 2)
        if multi:
            self.nt.add("send-with-several-attempts")
        self.obs = {"sends": len(self.sends), "produce_requests": len(self.writes), "batches": len(self.batches), "faults": self.faults,
                    "outcomes": {"ok": sum(1 for s in self.sends if s.watch and s.watch.state == "ok"), "err": sum(1 for s in self.sends if s.watch and s.watch.state == "err")},
                    "labels": sorted(self.labels | self.nt)}

    def _check_versions(self):
        av = self.cluster.api_versions
        table = dict((k, (lo, hi)) for k, lo, hi in av) if isinstance(av, list) else None
        disc = self.config["discovery"]
        for r in self.cluster.requests:
            req = r["req"]
            if req["api"] != "produce":
                continue
            v = req["api_version"]
            magics = set(x["magic"] for t in req["topics"] for p in t["partitions"] for x in p["records"])
            if disc in ("off", "silent", "error"):
                if v != 0 or magics - {0}:
                    self.note("C04.fallback-v0", "C04.version-after-failed-discovery/produce", "discovery %s but produce v%d with message magic %r was sent" % (disc, v, sorted(magics)))
            else:
                lo, hi = table[0]
                if not (lo <= v <= hi) or v not in (0, 1, 2):
                    self.note("C04.version-advertised", "C04.version-outside-advertised/produce", "produce v%d sent; broker advertised %d..%d" % (v, lo, hi))

    def apply_quiet(self, step):
        self.do(step)
        self.raise_noted()

    def check(self, step):
        pass

    def nontrivial(self):
        return bool(self.nt)


def _unused():
    return struct
