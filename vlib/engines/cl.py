"""Engine CL: one real KafkaClient on the simulated cluster (simkafka).  The
trace issues public client calls, schedules every network event and timer,
and injects faults; oracles for C07 (routing / order / accounting / fallback),
C08 (metadata cache mirrors replies), C11 (timeouts), C20 (close) and
C04(b) (version negotiation) are evaluated after every event."""
import random
import struct

from hypothesis import strategies as st

from .. import refproto as rp
from .. import simkafka, simnet
from .base import Engine

WAITS = [0.001, 0.05, 0.1, 0.4, 1.0, 5.0, 12.0]
CONNECT_LATENCY = 0.005
DEAD = [("dead1.example", 9092), ("dead2.example", 9092)]
GROUPS = ["g0", "g1", "g2"]
INTERNAL_ERRORS = (KeyError, AttributeError, TypeError, IndexError, AssertionError, UnboundLocalError, NameError, struct.error)


# error codes a broker can plausibly put into a reply of each API (others are not injected: e.g. a Fetch reply never
# carries a coordinator error, and the client's reaction to such a reply is not specified by any property)
PLAUSIBLE_CODES = {
    "produce": [3, 5, 6, 7, 2, 10, 17, 18, 19, 20, 29, 87],
    "fetch": [1, 3, 5, 6, 7, 2, 9, 87],
    "list_offsets": [3, 5, 6, 7, 87],
    "offset_commit": [12, 14, 15, 16, 22, 25, 27, 28, 87],
    "offset_fetch": [14, 15, 16, 87],
    "find_coordinator": [15, 87],
    "heartbeat": [15, 16, 22, 25, 27],
}


def api_table(variant, pmax, fmax, rnd):
    base = [(k, 0, 0) for k in range(2, 19)]
    prod, fetch = (0, 0, pmax), (1, 0, fmax)
    if variant == "dense":
        return [prod, fetch] + base
    if variant == "sparse":
        return [prod, fetch] + [e for e in base if e[0] not in (4, 5, 6, 7, 15, 16)]
    if variant == "fetch-first":
        return [fetch, prod] + base
    t = [prod, fetch] + base
    rnd.shuffle(t)
    return t


CLIENT_IDS = ["verif", "verif", "verif", "", None, "cli\u00e9nt"]  # as configured; None = the library's default id
MD_ORDERS = ["asc", "asc", "desc", "rot"]  # order in which a metadata reply lists a topic's partitions


def config_strategy(max_brokers=4):
    @st.composite
    def cfg(draw):
        nb = draw(st.integers(1, max_brokers))
        topics = []
        for i in range(draw(st.integers(1, 3))):
            parts = draw(st.lists(st.one_of(st.integers(1, nb), st.integers(1, nb), st.integers(1, nb), st.just(-1)), min_size=1, max_size=4))
            topics.append({"name": "t%d" % i, "leaders": parts, "magic": draw(st.sampled_from([0, 1]))})
        disc = draw(st.sampled_from(["off", "on", "on", "on", "on", "close", "silent", "silent", "error"]))
        return {
            "brokers": nb,
            "topics": topics,
            # a broker that closes the connection on ApiVersions (pre-0.10) makes the client reconnect in a tight loop
            # for the whole timeout: keep that timeout short so the case stays small
            "timeout_ms": draw(st.sampled_from([500, 1000, 1000, 1500, 2500, 10000])) if disc != "close" else 500,
            "dot": draw(st.booleans()),
            "discovery": disc,
            "table": draw(st.sampled_from(["dense", "dense", "sparse", "fetch-first", "shuffled"])),
            "pmax": draw(st.sampled_from([2, 2, 3, 7, 12])),
            "fmax": draw(st.sampled_from([2, 2, 4, 11])),
            "bootstrap": draw(st.lists(st.integers(0, nb + 1), min_size=1, max_size=3, unique=True)),
            "rseed": draw(st.integers(0, 999)),
            "md_order": draw(st.sampled_from(MD_ORDERS)),
            "client_id": draw(st.sampled_from(CLIENT_IDS)),
        }

    return cfg()


def build(config):
    """-> (world, cluster, client)"""
    from afkak import KafkaClient

    w = simnet.World()
    rnd = random.Random(config["rseed"])
    av = simkafka.DEFAULT_API_VERSIONS
    d = config["discovery"]
    if d in ("on", "off"):
        av = api_table(config["table"], config["pmax"], config["fmax"], rnd)
    elif d == "close":
        av = "close"
    elif d == "silent":
        av = "silent"
    elif d == "error":
        av = ("error", 35)
    cl = simkafka.Cluster(w, nbrokers=config["brokers"], api_versions=av)
    cl.md_order = config.get("md_order", "asc")
    for t in config["topics"]:
        cl.add_topic(t["name"], len(t["leaders"]), leaders=t["leaders"], magic=t["magic"])
    hosts = []
    for i in config["bootstrap"]:
        if i < config["brokers"]:
            b = cl.brokers[i + 1]
            hosts.append((b.host, b.port))
        else:
            hosts.append(DEAD[(i - config["brokers"]) % len(DEAD)])
    random.seed(config["rseed"])
    cid = config.get("client_id", "verif")
    cl.expect_client_id = b"afkak-client" if cid is None else cid.encode("utf-8")
    client = KafkaClient(
        hosts=["%s:%d" % h for h in hosts], clientId=cid, timeout=config["timeout_ms"], disconnect_on_timeout=config["dot"], reactor=w.clock,
        endpoint_factory=w.endpoint_factory, retry_policy=lambda n: min(0.317 * n, 7.3), enable_protocol_version_discovery=(d != "off"),
    )
    return w, cl, client, hosts


def C_FailedPayloadsError():
    from afkak.common import FailedPayloadsError

    return FailedPayloadsError


class Call(object):
    def __init__(self, no, kind, keys, w):
        self.no = no
        self.kind = kind
        self.keys = keys
        self.time = w.now
        self.step = w.step_no
        self.watch = None
        self.warm = False
        self.deadline = None
        self.foe = True
        self.group = None
        self.checked = False
        self.seq0 = 0
        self.evseq0 = 0
        self.timeout = None
        self.pre_closed = False
        self.acks = 1
        self.nreq = 0


class CLEngine(Engine):
    NAME = "CL"
    # scenario fragments the generator may splice in, and how often (checks re-weight this for their property)
    MACROS = ["warmup", "warmup", "notleader", "notleader", "readdress", "remove", "remove2", "timeout", "timeout", "partial"]
    MACRO_ONE_IN = 10

    @classmethod
    def config_strategy(cls):
        return config_strategy()

    def __init__(self, config, ctx, props=None):
        Engine.__init__(self, config, ctx, props)
        self.world, self.cluster, self.client, self.bootstrap = build(config)
        w = self.world
        self.timeout = config["timeout_ms"] / 1000.0
        self.tnames = [t["name"] for t in config["topics"]]
        cl = self.cluster
        cl.h_heartbeat = lambda node, conn, req, rec, info: rp.r_heartbeat(req["correlation_id"], cl._take_override(node, "heartbeat") or (0 if cl.coordinator_of(req["group"]) == node else 16))
        self.calls = []
        self.writes = []  # broker-aware writes observed at write time
        self.evseq = 0
        self.leader_hist = {}  # (t, p) -> [(evseq, node or None)]
        self.coord_hist = {}
        self.closed = False
        self.close_watch = None
        self.close_step = None
        self.open_at_close = []
        self.pending_at_close = []
        self.bootstrap_at_close = False
        self.stale = {}  # topic -> evseq since when routing is known stale
        self.coord_stale = {}  # group -> evseq since when the cached coordinator is known stale (a send to it failed)
        self.fc_scan_from = 0
        self.witnessed = None  # brokers of the last metadata reply consumed by a successful load call
        self.witnessed_seq = 0
        self.witnessed_topic = {}
        self.seen_attempts = 0
        self.tagged_attempts = 0
        self.script = []
        self.unresolved = []
        self.routed_upto = 0
        self.md_scan_from = 0
        self.nt = set()
        self.discovery_done = config["discovery"] == "off"
        self.produce_done = self.fetch_done = 0
        self.all_warm = True
        self.faults_injected = 0
        w.on_write = self._on_write
        self._sample_cache()

    # ------------------------------------------------------------------ generator
    def _payload_spec(self, draw, with_bogus=True):
        n = draw(st.integers(1, 5))
        out = []
        seen = set()
        for _ in range(n):
            ti = draw(st.integers(0, len(self.tnames) - 1 + (1 if with_bogus and draw(st.integers(0, 9)) == 0 else 0)))
            pi = draw(st.integers(0, 4))
            if (ti, pi) in seen:
                continue
            seen.add((ti, pi))
            out.append([ti, pi])
        return out

    def _macro(self, draw):
        """state-directed scenario fragments; they expand into ordinary steps of the trace"""
        nb = self.config["brokers"]
        kind = draw(st.sampled_from(self.MACROS))
        self.labels.add("script:" + kind)
        ti = draw(st.integers(0, len(self.tnames) - 1))
        nparts = len(self.config["topics"][ti]["leaders"])
        pi = draw(st.integers(0, nparts - 1))
        b = draw(st.integers(1, nb))
        call = draw(st.sampled_from(["produce", "fetch", "offsets"]))

        def mk(pairs):
            if call == "produce":
                return ["produce", [list(x) for x in pairs], 1, draw(st.booleans())]
            if call == "fetch":
                return ["fetch", [list(x) + [0] for x in pairs], draw(st.booleans())]
            return ["offsets", [list(x) + [-1] for x in pairs]]

        if kind == "warmup":
            return [["loadmd", []], ["run", 12], mk([(ti, pi)]), ["run", 12]]
        if kind in ("closebusy", "closebackoff", "closeconnecting"):
            # close() in a busy state: requests in flight on several brokers (some held), a broker in reconnect back-off, or a connection
            # attempt still pending; then the connection-closed notifications in a drawn order
            pairs = [(t, p) for t in range(len(self.tnames)) for p in range(len(self.config["topics"][t]["leaders"])) if self.config["topics"][t]["leaders"][p] > 0]
            pairs = list(draw(st.permutations(pairs)))[:4] or [(ti, pi)]
            api = {"produce": "produce", "fetch": "fetch", "offsets": "list_offsets"}[call]
            tail = [["close"], ["ev", "lost", draw(st.integers(0, 2))], ["run", draw(st.integers(0, 4))], ["ev", "lost", draw(st.integers(0, 2))], ["run", 12], ["wait", 6], ["run", 8]]
            if kind == "closebusy":
                return [["loadmd", []], ["run", 12], mk(pairs), ["run", 14], ["hold", b, api], mk(pairs), mk(pairs[:1]), ["run", draw(st.integers(0, 5))]] + tail
            leader = self.config["topics"][pairs[0][0]]["leaders"][pairs[0][1]]
            node = leader if leader > 0 else b
            if kind == "closebackoff":
                return [["loadmd", []], ["run", 12], mk(pairs[:1]), ["run", 10], [draw(st.sampled_from(["refuse", "refusesync"])), node], ["drop", 0, 0], ["drop", 0, 0], ["drop", 0, 0], ["run", 6], mk(pairs[:1]),
                        ["run", draw(st.integers(0, 4))], ["wait", draw(st.integers(0, 2))]] + tail
            return [["loadmd", []], ["run", 12], mk(pairs), ["ev", "srv", 0], ["run", draw(st.integers(0, 2))]] + tail
        if kind == "twoaddr":
            # one broker cached under two addresses: topic A's metadata predates the broker's move, topic B's is loaded after it; then
            # one call with partitions of both led by that broker (one request per broker!)
            tj = (ti + 1) % len(self.tnames)
            return [["leader", ti, 0, b], ["leader", tj, 0, b], ["loadmd", [ti]], ["run", 12], mk([(ti, 0)]), ["run", 10], ["down", b], ["up", b, True], ["leader", ti, 0, b], ["leader", tj, 0, b],
                    ["loadmd", [tj]], ["run", 14], mk([(ti, 0), (tj, 0)] if tj != ti else [(ti, 0)]), ["run", 8], ["wait", 6], ["run", 14]]
        if kind == "timeout2":
            # two timeouts in a row on the same broker: after the first one the connection is replaced; the second silent connection
            # must be dropped just the same, and a younger unanswered request re-sent on yet another one
            api = {"produce": "produce", "fetch": "fetch", "offsets": "list_offsets"}[call]
            return [["loadmd", []], ["run", 12], mk([(ti, pi)]), ["run", 10], ["hold", b, api], mk([(ti, pi)]), ["run", 4], ["wait", 6], ["run", 14], ["hold", b, api], ["hold", b, api], ["hold", b, api],
                    mk([(ti, pi)]), ["run", 4], ["wait", draw(st.integers(0, 2))], mk([(ti, pi)]), ["run", 4], ["wait", 6], ["run", 14], ["timer"], ["run", 8], ["wait", 6], ["run", 12]]
        if kind == "silentboot":
            # bootstrap hosts that accept the connection but never answer: each must be given up after the timeout and the next one tried
            return [["hold", b, "metadata"], ["hold", b, "metadata"], ["loadmd", draw(st.sampled_from([[], [ti]]))], ["run", 8], ["wait", 6], ["run", 12], ["wait", 6], ["run", 12], ["wait", 6], ["run", 12]]
        if kind == "topicgone":
            # a cached topic is deleted (the next reply lists it erroring, without partitions), later re-created with fewer partitions
            return [["loadmd", []], ["run", 12], mk([(ti, pi)]), ["run", 10], ["tdel", ti], ["loadmd", [ti]], ["run", 14], mk([(ti, pi)]), ["run", 12], ["tnew", ti, draw(st.integers(1, 2))],
                    ["loadmd", draw(st.sampled_from([[ti], []]))], ["run", 14], mk([(ti, 0)]), ["run", 14]]
        if kind == "noconn":
            # a warm call (also one that expects no reply) to a known broker whose connection cannot be re-established
            leader = self.config["topics"][ti]["leaders"][pi]
            node = leader if leader > 0 else b
            second = ["produce", [[ti, pi]], draw(st.sampled_from([0, 0, 1, -1])), True] if draw(st.booleans()) else mk([(ti, pi)])
            return [["loadmd", []], ["run", 12], mk([(ti, pi)]), ["run", 10], ["refuse", node], ["drop", 0, 0], ["drop", 0, 0], ["drop", 0, 0], ["run", 8], second, ["run", 6],
                    ["wait", 6], ["timer"], ["run", 6], ["timer"], ["run", 6]]
        if kind == "notleader":
            return [["loadmd", []], ["run", 12], mk([(ti, pi)]), ["run", 10], ["leader", ti, pi, b], mk([(ti, pi)]), ["run", 10], mk([(ti, pi)]), ["run", 14]]
        if kind == "readdress":
            return [["loadmd", []], ["run", 12], mk([(ti, pi)]), ["run", 10], ["down", b], ["up", b, True], ["leader", ti, pi, b], ["run", 6], ["loadmd", []], ["run", 14], mk([(ti, pi)]), ["run", 14]]
        if kind in ("remove", "remove2"):
            allp = [[t, p] for t in range(len(self.tnames)) for p in range(len(self.config["topics"][t]["leaders"])) if self.config["topics"][t]["leaders"][p] > 0][:6] or [[0, 0]]
            warm = ["fetch", [x + [0] for x in allp], False]
            leaders = sorted(set(x for t in self.config["topics"] for x in t["leaders"] if x > 0))
            if len(leaders) < 3 or kind == "remove":
                return [["loadmd", []], ["run", 12], warm, ["run", 16], ["decom", b], ["loadmd", []], ["run", 14]]
            # two brokers removed by two full refreshes; the first one's connection-closed notification arrives, then
            # close(), then the remaining live connection goes before the second removed broker's does
            order = draw(st.permutations(leaders))
            # (only the request/reply events of each refresh are processed, so the connection-closed notifications stay pending)
            return [["loadmd", []], ["run", 12], warm, ["run", 20], ["decom", order[0]], ["loadmd", []], ["ev", "srv", 0], ["ev", "dlv", 0], ["decom", order[1]], ["loadmd", []],
                    ["ev", "srv", 0], ["ev", "dlv", 0], ["ev", "lost", draw(st.sampled_from([0, 0, 1]))], ["close"], ["ev", "lost", draw(st.sampled_from([1, 1, 0, 2]))],
                    ["ev", "lost", draw(st.integers(0, 2))], ["run", 6]]
        if kind == "timeout":
            api = {"produce": "produce", "fetch": "fetch", "offsets": "list_offsets"}[call]
            if draw(st.booleans()):
                return [["loadmd", []], ["run", 12], mk([(ti, pi)]), ["run", 10], ["hold", b, api], mk([(ti, p) for p in range(nparts)]), ["run", 8], ["wait", 6], ["release", 0], ["run", 8]]
            # two calls sharing a connection to a silent broker, issued at different instants: the older one times out first
            return [["loadmd", []], ["run", 12], mk([(ti, pi)]), ["run", 10], ["hold", b, api], ["hold", b, api], mk([(ti, pi)]), ["run", 4], ["wait", draw(st.integers(1, 3))],
                    mk([(ti, pi)]), ["run", 4], ["timer"], ["run", 6], ["timer"], ["run", 6]]
        pairs = [(t, p) for t in range(len(self.tnames)) for p in range(len(self.config["topics"][t]["leaders"]))]
        pairs = draw(st.permutations(pairs))[:5]
        return [["loadmd", []], ["run", 12], mk(pairs), ["run", 4], ["drop", draw(st.integers(0, 4)), 0], ["run", 12], ["wait", 6]]

    def draw_step(self, draw):
        w = self.world
        if self.script:
            return self.script.pop(0)
        if not self.closed and draw(st.integers(0, self.MACRO_ONE_IN - 1)) == 0:
            self.script = self._macro(draw)
            return self.script.pop(0)
        ops = []
        if not self.closed or draw(st.integers(0, 3)) == 0:
            ops += ["produce", "produce", "fetch", "fetch", "offsets", "ofetch", "ocommit", "hb", "loadmd", "loadmd", "loadcoord", "resetmd", "hosts"]
        if not self.closed and len(self.trace) > 3:
            boot_busy = any(not hasattr(a.factory, "node_id") and not a.resolved for a in w.attempt_log) or any(
                not hasattr(c.attempt.factory, "node_id") and not c.lost_delivered and not c.client_closed for c in w.conns)
            if not boot_busy or draw(st.integers(0, 7)) == 0:
                ops += ["close"]
        if w.pending():
            ops += ["run"] * 6 + ["ev", "ev"]
        if w.pending("connect"):
            ops += ["conn"]
        if w.next_timer() is not None:
            ops += ["timer", "timer", "wait"]
        ops += ["err", "hold", "down", "up", "leader", "coord", "mderr", "refuse", "refusesync", "decom", "tdel", "tnew"]
        if self.cluster.held:
            ops += ["release", "release"]
        if w.live_conns():
            ops += ["drop", "chunk"]
        op = draw(st.sampled_from(ops))
        nb = self.config["brokers"]
        if op == "produce":
            return ["produce", self._payload_spec(draw), draw(st.sampled_from([1, 1, 1, 0, -1])), draw(st.sampled_from([True, True, False]))]
        if op == "fetch":
            return ["fetch", [s + [draw(st.integers(0, 3))] for s in self._payload_spec(draw)], draw(st.sampled_from([True, True, False]))]
        if op == "offsets":
            return ["offsets", [s + [draw(st.sampled_from([-1, -2]))] for s in self._payload_spec(draw)]]
        if op == "ofetch":
            return ["ofetch", draw(st.integers(0, 2)), self._payload_spec(draw, False)]
        if op == "ocommit":
            return ["ocommit", draw(st.integers(0, 2)), [s + [draw(st.integers(0, 50))] for s in self._payload_spec(draw, False)]]
        if op == "hb":
            return ["hb", draw(st.integers(0, 2)), draw(st.sampled_from([0, 0, 35]))]
        if op == "loadmd":
            return ["loadmd", draw(st.lists(st.integers(0, len(self.tnames)), max_size=2, unique=True))]
        if op == "loadcoord":
            return ["loadcoord", draw(st.integers(0, 2))]
        if op == "resetmd":
            return ["resetmd", draw(st.integers(0, len(self.tnames) - 1))]
        if op == "hosts":
            return ["hosts", draw(st.lists(st.integers(0, nb + 1), min_size=1, max_size=3, unique=True))]
        if op == "run":
            return ["run", draw(st.integers(1, 12))]
        if op == "ev":
            return ["ev", draw(st.sampled_from(["srv", "dlv", "lost", "connect"])), draw(st.integers(0, 6))]
        if op == "conn":
            return ["conn", draw(st.integers(0, 3)), draw(st.sampled_from(["accept", "refuse", "hang"]))]
        if op == "wait":
            return ["wait", draw(st.integers(0, len(WAITS) - 1))]
        if op == "err":
            api = draw(st.sampled_from(sorted(PLAUSIBLE_CODES)))
            return ["err", draw(st.integers(1, nb)), api, draw(st.sampled_from(PLAUSIBLE_CODES[api])), draw(st.integers(1, 3))]
        if op == "hold":
            return ["hold", draw(st.integers(1, nb)), draw(st.sampled_from(["produce", "fetch", "list_offsets", "metadata", "offset_commit", "offset_fetch", "find_coordinator", "heartbeat", "api_versions"]))]
        if op == "release":
            return ["release", draw(st.integers(0, 5))]
        if op in ("drop", "chunk"):
            return [op, draw(st.integers(0, 6)), draw(st.integers(0, 30))]
        if op in ("down", "refuse", "refusesync", "decom"):
            return [op, draw(st.integers(1, nb))]
        if op == "up":
            return ["up", draw(st.integers(1, nb)), draw(st.booleans())]
        if op == "leader":
            return ["leader", draw(st.integers(0, len(self.tnames) - 1)), draw(st.integers(0, 3)), draw(st.integers(-1, nb))]
        if op == "tdel":
            return ["tdel", draw(st.integers(0, len(self.tnames) - 1))]
        if op == "tnew":
            return ["tnew", draw(st.integers(0, len(self.tnames) - 1)), draw(st.integers(1, 4))]
        if op == "coord":
            return ["coord", draw(st.integers(0, 2)), draw(st.integers(1, nb))]
        if op == "mderr":
            return ["mderr", draw(st.integers(0, len(self.tnames) - 1)), draw(st.sampled_from([0, 5, 3, 17]))]
        return [op]

    # ------------------------------------------------------------------ observation helpers
    def _tname(self, ti):
        return self.tnames[ti] if ti < len(self.tnames) else "nosuch"

    def _cache_node(self, t, p):
        from afkak.common import TopicAndPartition

        bm = self.client.topics_to_brokers.get(TopicAndPartition(t, p), "missing")
        if bm == "missing":
            return "missing"
        return None if bm is None else bm.node_id

    def _sample_cache(self):
        """record changes of the client's routing cache (public-by-documentation attributes)"""
        c = self.client
        if c.topics_to_brokers is None:
            return
        seen = set()
        for tp, bm in list(c.topics_to_brokers.items()):
            k = (tp.topic, tp.partition)
            seen.add(k)
            v = None if bm is None else bm.node_id
            h = self.leader_hist.setdefault(k, [])
            if not h or h[-1][1] != v:
                h.append((self.evseq, v))
        for k, h in self.leader_hist.items():
            if k not in seen and h and h[-1][1] != "missing":
                h.append((self.evseq, "missing"))
        for g, bm in c.consumer_group_to_brokers.items():
            h = self.coord_hist.setdefault(g, [])
            v = None if bm is None else bm.node_id
            if not h or h[-1][1] != v:
                h.append((self.evseq, v))

    def _on_write(self, conn, frame):
        """synchronous observer: record only"""
        try:
            req = rp.parse_request(frame)
        except rp.GrammarError:
            return
        self._sample_cache()
        node = conn.userdata.get("node")
        api = req["api"]
        rec = {"conn": conn, "node": node, "api": api, "req": req, "evseq": self.evseq, "step": self.world.step_no, "time": self.world.now, "frame": frame,
               "bootstrap": not hasattr(conn.attempt.factory, "node_id"), "after_close": self.closed}
        if api in ("produce", "fetch", "list_offsets"):
            rec["keys"] = [(t["topic"], p["partition"]) for t in req["topics"] for p in t["partitions"]]
            rec["cache"] = dict((k, self._cache_node(*k)) for k in rec["keys"])
        elif api in ("offset_commit", "offset_fetch", "heartbeat"):
            rec["keys"] = [(t["topic"], p["partition"]) for t in req.get("topics", []) for p in t["partitions"]]
            bm = self.client.consumer_group_to_brokers.get(req["group"])
            rec["coord_cache"] = None if bm is None else bm.node_id
        rec["call"] = self._tag_of(req)
        self.writes.append(rec)

    def _tag_of(self, req):
        api = req["api"]
        try:
            if api == "produce":
                for t in req["topics"]:
                    for p in t["partitions"]:
                        for r in p["records"]:
                            v = r["value"] if r["inner"] is None else r["inner"][0]["value"]
                            if v and v.startswith(b"c"):
                                return int(v[1:].split(b":")[0])
            elif api == "fetch":
                return req["topics"][0]["partitions"][0]["max_bytes"] - 100000
            elif api == "list_offsets":
                return req["topics"][0]["partitions"][0]["max_offsets"] - 1
            elif api == "offset_commit":
                return int(req["topics"][0]["partitions"][0]["metadata"][1:])
            elif api == "offset_fetch":
                cands = [c for c in self.calls if c.kind == "ofetch" and c.group == req["group"] and c.watch is not None and c.watch.state == "pending"]
                return cands[-1].no if cands else None
        except Exception:  # noqa
            return None
        return None

    # ------------------------------------------------------------------ ops
    def _issue(self, kind, keys, fn, **kw):
        w = self.world
        c = Call(len(self.calls), kind, keys, w)
        for k, v in kw.items():
            setattr(c, k, v)
        c.seq0 = self.cluster._seq
        c.evseq0 = self.evseq
        c.pre_closed = self.closed
        c.witnessed0 = self.witnessed
        c.bootstrap0 = list(self.bootstrap)
        # which brokers the CLIENT regards as connected at this instant (its own test; the network may already have dropped one
        # without the client having been told, and a connection may be replaced before the call's frame is written)
        try:
            c.connected0 = set(n for n, bc in (self.client.clients or {}).items() if bc.connected())
        except Exception:  # noqa
            c.connected0 = None
        c.timeout = max(self.timeout, kw.get("min_timeout") or 0)
        self.calls.append(c)
        self._sample_cache()
        # warm = routing cached (and version known), so the broker request is issued at the call instant
        if kind in ("produce", "fetch", "offsets"):
            nodes = [self._cache_node(t, p) for t, p in keys]
            c.warm = all(isinstance(n, int) for n in nodes) and (kind == "offsets" or self.discovery_done) and not self.closed
            c.nreq = len(set(nodes)) if c.warm else 0
        elif kind in ("ofetch", "ocommit", "hb"):
            bm = self.client.consumer_group_to_brokers.get(c.group)
            c.warm = bm is not None and not self.closed
            c.nreq = 1 if c.warm else 0
        if c.warm:
            c.deadline = w.now + c.timeout
        elif kind in ("produce", "fetch", "offsets", "ofetch", "ocommit", "hb"):
            self.all_warm = False
        self.evseq += 1
        try:
            d = fn(c)
        except Exception as e:  # noqa
            c.raised = e
            self.note("C20.new-ops-fail" if self.closed else "C07.call", "%s.call-raised-synchronously/%s/%s" % ("C20" if self.closed else "C07", kind, type(e).__name__),
                      "%s(...) raised %r instead of returning a Deferred" % (kind, e))
            return c
        c.corr = self.client.correlation_id  # broker-agnostic calls allocate their request id synchronously
        c.watch = simnet.Watch(d, w, "call%d" % c.no)
        c.watch.silence()
        return c

    def do(self, step):
        from afkak import common as C
        from afkak.kafkacodec import KafkaCodec, create_message_set

        w, cl, client = self.world, self.cluster, self.client
        op = step[0]
        if op == "produce":
            keys = [(self._tname(ti), pi) for ti, pi in step[1]]
            if not keys:
                return

            def fn(c):
                payloads = [C.ProduceRequest(t, p, create_message_set([C.SendRequest(t, None, [b"c%d:%d" % (c.no, i)], None)], C.CODEC_NONE)) for i, (t, p) in enumerate(keys)]
                return client.send_produce_request(payloads, acks=step[2], fail_on_error=step[3])

            self._issue("produce", keys, fn, foe=step[3], acks=step[2])
        elif op == "fetch":
            keys = [(self._tname(ti), pi) for ti, pi, _ in step[1]]
            if not keys:
                return

            def fn(c):
                payloads = [C.FetchRequest(self._tname(ti), pi, off, 100000 + c.no) for ti, pi, off in step[1]]
                return client.send_fetch_request(payloads, fail_on_error=step[2], max_wait_time=100, min_bytes=1)

            self._issue("fetch", keys, fn, foe=step[2])
        elif op == "offsets":
            keys = [(self._tname(ti), pi) for ti, pi, _ in step[1]]
            if not keys:
                return
            self._issue("offsets", keys, lambda c: client.send_offset_request([C.OffsetRequest(self._tname(ti), pi, tm, 1 + c.no) for ti, pi, tm in step[1]]))
        elif op == "ofetch":
            g = GROUPS[step[1] % len(GROUPS)]
            keys = [(self._tname(ti), pi) for ti, pi in step[2]]
            if not keys or any(c.kind == "ofetch" and c.group == g and c.watch is not None and c.watch.state == "pending" for c in self.calls):
                return
            self._issue("ofetch", keys, lambda c: client.send_offset_fetch_request(g, [C.OffsetFetchRequest(t, p) for t, p in keys]), group=g)
        elif op == "ocommit":
            g = GROUPS[step[1] % len(GROUPS)]
            keys = [(self._tname(ti), pi) for ti, pi, _ in step[2]]
            if not keys:
                return
            self._issue("ocommit", keys, lambda c: client.send_offset_commit_request(g, [C.OffsetCommitRequest(self._tname(ti), pi, off, -1, b"c%d" % c.no) for ti, pi, off in step[2]]), group=g)
        elif op == "hb":
            g = GROUPS[step[1] % len(GROUPS)]
            kw = {"min_timeout": float(step[2])} if step[2] else {}
            self._issue("hb", [], lambda c: client._send_request_to_coordinator(g, C._HeartbeatRequest(g, 1, "m"), encoder_fn=KafkaCodec.encode_heartbeat_request,
                                                                                 decode_fn=KafkaCodec.decode_heartbeat_response, **kw), group=g, min_timeout=float(step[2]) if step[2] else None)
        elif op == "loadmd":
            topics = [self._tname(ti) for ti in step[1]]
            self._issue("loadmd", topics, lambda c: client.load_metadata_for_topics(*topics))
        elif op == "loadcoord":
            g = GROUPS[step[1] % len(GROUPS)]
            shared = any(c.group == g and c.watch is not None and c.watch.state == "pending" for c in self.calls)
            c = self._issue("loadcoord", [], lambda c: client.load_coordinator_for_group(g), group=g)
            c.shared_lookup = shared  # joins a coordinator lookup already in progress: not its own request
        elif op == "resetmd":
            if not self.closed:
                client.reset_topic_metadata(self._tname(step[1]))
        elif op == "hosts":
            hosts = []
            for i in step[1]:
                if i < self.config["brokers"]:
                    b = cl.brokers[i + 1]
                    hosts.append((b.host, b.port))
                else:
                    hosts.append(DEAD[(i - self.config["brokers"]) % len(DEAD)])
            self.bootstrap = hosts
            for c in self.calls:
                if c.watch is not None and c.watch.state == "pending":
                    c.bootstrap0 = [h for h in c.bootstrap0 if h in hosts]
            client.update_cluster_hosts(["%s:%d" % h for h in hosts])
        elif op == "close":
            if self.closed:
                return
            self._do_close()
        elif op == "run":
            for _ in range(step[1]):
                p = w.pending()
                if not p:
                    break
                self._process(p[0])
        elif op == "ev":
            p = w.pending(step[1])
            if p:
                self._process(p[step[2] % len(p)])
        elif op == "conn":
            p = w.pending("connect")
            if p:
                self._process(p[step[1] % len(p)], step[2])
        elif op == "chunk":
            lc = w.live_conns()
            if lc and w.split_head(lc[step[1] % len(lc)], step[2]):
                self.labels.add("split-frame")
        elif op == "timer":
            self._timer()
        elif op == "wait":
            target = w.now + WAITS[step[1] % len(WAITS)]
            n = 0
            while n < 400:
                nt = w.next_timer()
                if nt is None or nt[0] > target:
                    break
                self._timer()
                n += 1
            w.set_time(target)
            self._after_event()
        elif op == "err":
            cl.override(step[1], step[2], step[3], step[4])
            self.faults_injected += 1
            self.labels.add("fault:error-code")
        elif op == "hold":
            cl.hold(step[1], step[2], 1)
            self.faults_injected += 1
            self.labels.add("fault:held-reply")
        elif op == "release":
            if cl.release(step[1]):
                self.labels.add("late-reply-released")
        elif op == "drop":
            lc = w.live_conns()
            if lc:
                lc[step[1] % len(lc)].drop()
                self.faults_injected += 1
                self.labels.add("fault:drop")
        elif op == "down":
            if sum(1 for b in cl.brokers.values() if b.up) > 1 or step[1] % 5 == 0:
                cl.broker_down(step[1])
                self.faults_injected += 1
                self.labels.add("fault:broker-down")
        elif op == "decom":
            if sum(1 for b in cl.brokers.values() if b.up and b.listed) > 1:
                cl.decommission(step[1])
                self.labels.add("broker-decommissioned")
        elif op == "up":
            cl.brokers[step[1]].listed = True
            b = cl.brokers[step[1]]
            addr = ("kafka%d-new.example" % step[1], 9092) if (step[2] and not b.up) else None
            if addr:
                self.labels.add("broker-readdressed")
            cl.broker_up(step[1], addr)
        elif op == "leader":
            t = self._tname(step[1])
            parts = cl.topics.get(t, {})
            if parts:
                p = parts[step[2] % len(parts)]
                p.leader = step[3] if step[3] != 0 else -1
                self.labels.add("leader-moved")
        elif op == "tdel":
            # the topic is deleted: metadata replies now list it with UNKNOWN_TOPIC_OR_PARTITION and no partitions
            t = self._tname(step[1])
            if cl.topics.pop(t, None) is not None:
                self.labels.add("topic-deleted")
                self.faults_injected += 1
        elif op == "tnew":
            # the topic is (re)created with a possibly different number of partitions
            t = self._tname(step[1])
            if t in self.tnames:
                ups = sorted(n for n, b in cl.brokers.items() if b.up and b.listed) or [1]
                had = len(cl.topics.get(t, {}))
                cl.add_topic(t, step[2], leaders=[ups[i % len(ups)] for i in range(step[2])], magic=self.config["topics"][self.tnames.index(t)]["magic"])
                self.labels.add("topic-recreated-with-fewer-partitions" if 0 < step[2] < had else "topic-recreated")
        elif op == "coord":
            cl.coordinators[GROUPS[step[1] % len(GROUPS)]] = step[2]
            self.labels.add("coordinator-moved")
        elif op == "mderr":
            t = self._tname(step[1])
            if step[2]:
                cl.topic_errors[t] = step[2]
            else:
                cl.topic_errors.pop(t, None)
        elif op == "refuse":
            cl.refusing[step[1]] = not cl.refusing.get(step[1])
            self.labels.add("fault:refuse-connects")
        elif op == "refusesync":
            # the endpoint fails the attempt before connect() returns (an already-failed Deferred)
            cl.refusing[step[1]] = False if cl.refusing.get(step[1]) else "sync"
            self.labels.add("fault:refuse-connects-synchronously")

    def _timer(self):
        self.evseq += 1
        self.world.fire_next_timer()
        self._after_event()

    def _process(self, ev, action=None):
        self.evseq += 1
        kind, conn = ev.kind, ev.conn
        nconn = len(self.world.conns)
        self.world.process(ev, action)
        if kind == "connect" and len(self.world.conns) > nconn:
            self._check_resend(self.world.conns[-1])
        self._after_event(kind, conn)
        if kind == "connect":
            # establishing a connection takes (virtual) time: without this an immediate-reconnect loop against a
            # broker that keeps dropping the connection would spin forever at one instant and starve the timers
            target = self.world.now + CONNECT_LATENCY
            n = 0
            while n < 50:
                nt = self.world.next_timer()
                if nt is None or nt[0] > target:
                    break
                self._timer()
                n += 1
            self.world.set_time(target)

    def _check_resend(self, newc):
        """C11 (4) / C10 at client level: when a broker client gets a new connection, every request of a still-pending
        warm call that it had written on an earlier connection, that has no delivered reply and whose deadline has not
        passed, is written again on the new connection at once."""
        fac = newc.attempt.factory
        if not hasattr(fac, "node_id") or self.closed:
            return
        w = self.world
        now_written = set(x["frame"] for x in self.writes if x["conn"] is newc)
        seen = set()
        for x in self.writes:
            if x["conn"] is newc or x["conn"].attempt.factory is not fac or x["call"] is None or x["frame"] in seen:
                continue
            seen.add(x["frame"])
            if not (0 <= x["call"] < len(self.calls)):
                continue
            c = self.calls[x["call"]]
            if c.watch is None or c.watch.state != "pending" or not c.warm or c.deadline is None or w.now >= c.deadline - 1e-9:
                continue
            if x["time"] != c.time or (c.kind == "produce" and c.acks == 0):
                continue
            corr = x["req"]["correlation_id"]
            answered = any(r["req"]["correlation_id"] == corr and r["req"]["api"] == x["api"] and self.cluster.delivered(r["reply"]) for r in self.cluster.requests if r["seq"] > c.seq0)
            if answered:
                continue
            self.nt.add("unanswered-request-awaits-new-connection")
            if x["frame"] not in now_written:
                self.note("C11.resend-after-disconnect", "C11.unanswered-not-resent/%s" % x["api"],
                          "call #%d (%s): its unanswered request (correlation id %d) to node %r was not written again when the broker client reconnected at t=%.3f (deadline t=%.3f)" % (c.no, c.kind, corr, x["node"], w.now, c.deadline))

    # ------------------------------------------------------------------ close (C20)
    def _do_close(self):
        from afkak._protocol import KafkaBootstrapProtocol

        w = self.world
        self.pending_at_close = [c for c in self.calls if c.watch is not None and c.watch.state == "pending"]
        self.open_at_close = [c for c in w.conns if not c.lost_delivered]
        pend_attempts = [a for a in w.attempt_log if not a.resolved or a.hung and a.outcome is None]
        boot_conns = [c for c in self.open_at_close if isinstance(c.proto, KafkaBootstrapProtocol)]
        boot_attempts = [a for a in pend_attempts if not hasattr(a.factory, "node_id")]
        self.bootstrap_at_close = bool(boot_conns or boot_attempts)
        self.attempts_at_close = pend_attempts
        self.closed = True
        self.close_step = w.step_no
        w.forbid_connects = True
        w.forbid_writes = True
        n_att = len(w.attempt_log)
        d = self.client.close()
        self.close_watch = simnet.Watch(d, w, "close")
        self.close_watch.silence()
        # did close() itself push a pending call onto the bootstrap path (brokers failed -> fall back to bootstrap hosts)?
        fell_through = any(not hasattr(a.factory, "node_id") for a in w.attempt_log[n_att:])
        self.bootstrap_path = self.bootstrap_at_close or fell_through
        sfx = "/bootstrap-path" if self.bootstrap_path else ""
        self.sfx = sfx
        if self.pending_at_close and (len(set((c.host, c.port) for c in self.open_at_close) | set((a.host, a.port) for a in pend_attempts)) >= 2):
            self.nt.add("close-with-pending-calls-and-connections")
        self.labels.add("closed-while-" + ("bootstrapping" if self.bootstrap_at_close else "busy" if self.pending_at_close else "idle"))
        # (1) every pending call has failed, now
        for c in self.pending_at_close:
            if c.watch.state == "pending":
                self.note("C20.pending-fail-at-once", "C20.pending-fail-at-once%s" % sfx, "call #%d (%s) was in progress at close() and has not failed when close() returned" % (c.no, c.kind))
            elif c.watch.state == "ok":
                self.note("C20.pending-fail-at-once", "C20.pending-succeeded-at-close%s" % sfx, "call #%d (%s) in progress at close() fired with success %.100r" % (c.no, c.kind, c.watch.value))
        # (4) every open connection closed by the client
        for c in self.open_at_close:
            if not c.client_closed:
                self.note("C20.connections-closed", "C20.connection-left-open%s" % ("/bootstrap" if c in boot_conns else ""), "connection %r was open at close() and the client did not close it" % c)
        for a in pend_attempts:
            if not a.cancelled and not a.resolved:
                self.note("C20.connections-closed", "C20.attempt-not-cancelled%s" % ("/bootstrap" if a in boot_attempts else ""), "connection attempt to %s:%s still pending after close()" % (a.host, a.port))
        # (5) caches cleared
        cli = self.client
        if cli.topic_partitions or cli.topics_to_brokers or cli.topic_errors:
            self.note("C20.metadata-cleared", "C20.metadata-cleared", "after close(): topic_partitions=%r topics_to_brokers=%r topic_errors=%r" % (cli.topic_partitions, cli.topics_to_brokers, cli.topic_errors))
        self._check_close_d()

    def _check_close_d(self):
        if self.close_watch is None:
            return
        cw = self.close_watch
        sfx = getattr(self, "sfx", "")
        still = [c for c in self.open_at_close if not c.lost_delivered]
        if cw.extra_attempts:
            self.note("C20.close-fires-once", "C20.close-fired-twice", "close() Deferred fired again: %r" % cw.extra_attempts)
        if still and cw.state != "pending":
            self.note("C20.close-fires-after-last", "C20.close-fired-early%s" % sfx, "close() Deferred fired while %r still open" % still[:3])
        if not still and cw.state == "pending":
            self.note("C20.close-fires-after-last", "C20.close-not-fired%s" % sfx, "every connection is gone but the close() Deferred has not fired")

    # ------------------------------------------------------------------ per-event oracles
    def _after_event(self, kind=None, conn=None):
        self._sample_cache()
        w = self.world
        for a in w.attempt_log[self.tagged_attempts:]:
            a.evseq = self.evseq
            self.unresolved.append(a)
        self.tagged_attempts = len(w.attempt_log)
        if self.unresolved:
            keep = []
            for a in self.unresolved:
                if a.resolved:
                    a.resolved_evseq = self.evseq
                else:
                    keep.append(a)
            self.unresolved = keep
        for c in self.calls:
            if c.watch is None:
                continue
            if c.watch.extra_attempts:
                self.note("C11.late-reply-harmless", "C11.call-fired-twice/%s" % c.kind, "call #%d fired again: %r" % (c.no, c.watch.extra_attempts))
            if c.watch.state != "pending" and not c.checked:
                c.checked = True
                self._call_done(c)
            # C11 (1): a warm call resolves by its deadline
            if c.deadline is not None and c.watch.state == "pending" and w.now > c.deadline + 1e-9 and not getattr(c, "late_flagged", False):
                c.late_flagged = True
                self.note("C11.bounded", "C11.not-resolved-by-deadline/%s" % c.kind, "call #%d (%s) issued at t=%.3f with timeout %.2fs is still pending at t=%.3f" % (c.no, c.kind, c.time, c.timeout, w.now))
        # note the delivery order of metadata replies; one delivered after an invalidation refreshes the routing just
        # as well as a new request would
        for i in self.cluster.metadata_replies[self.md_scan_from:]:
            if "delivered_evseq" not in i and self.cluster.delivered(i):
                i["delivered_evseq"] = self.evseq
                for _, t, _ in i["metadata"][1]:
                    self.stale.pop(t, None)
        reps = self.cluster.replies
        for r in reps[self.fc_scan_from:]:
            if r["api"] == "find_coordinator" and "fc_delivered_evseq" not in r and self.cluster.delivered(r):
                r["fc_delivered_evseq"] = self.evseq
                self.coord_stale.pop(r.get("group"), None)
        while self.fc_scan_from < len(reps) and (reps[self.fc_scan_from]["api"] != "find_coordinator" or "fc_delivered_evseq" in reps[self.fc_scan_from]):
            self.fc_scan_from += 1
        while self.md_scan_from < len(self.cluster.metadata_replies) and (
                "delivered_evseq" in self.cluster.metadata_replies[self.md_scan_from] or self.cluster.metadata_replies[self.md_scan_from].get("lost")):
            self.md_scan_from += 1
        self._check_routing()
        self._check_view()
        self._check_timers()
        self._check_addresses()
        if self.closed:
            if w.forbidden:
                f = w.forbidden[0]
                w.forbidden = []
                self.note("C20.quiet-after-close", "C20.%s-after-close%s" % (f[0], getattr(self, "sfx", "")), "after close(): %r" % (f,))
            self._check_close_d()

    def _requests_of(self, c):
        """cluster-side request records carrying call c's tag"""
        api = {"produce": "produce", "fetch": "fetch", "offsets": "list_offsets", "ocommit": "offset_commit", "ofetch": "offset_fetch"}.get(c.kind)
        out = []
        for r in self.cluster.requests:
            if r["seq"] <= c.seq0 or r["req"]["api"] != api:
                continue
            if api == "offset_fetch":
                if r["req"]["group"] == c.group:
                    out.append(r)
            elif self._tag_of(r["req"]) == c.no:
                out.append(r)
        return out

    def _call_done(self, c):
        from afkak import common as C

        w = self.world
        wt = c.watch
        fired_t = wt.fired[0][1]
        if c.deadline is not None and fired_t > c.deadline + 1e-9:
            self.note("C11.bounded", "C11.resolved-after-deadline/%s" % c.kind, "call #%d (%s) issued t=%.3f timeout %.2f resolved at t=%.3f" % (c.no, c.kind, c.time, c.timeout, fired_t))
        if c.pre_closed:
            if wt.state == "ok":
                self.note("C20.new-ops-fail", "C20.new-op-succeeded/%s" % c.kind, "call #%d (%s) started after close() succeeded with %.100r" % (c.no, c.kind, wt.value))
            return
        if c.kind in ("produce", "fetch", "offsets", "ofetch", "ocommit"):
            reqs = self._requests_of(c)
            if wt.state == "ok":
                self._check_success(c, wt.value, reqs)
            else:
                self._check_failure(c, wt.value, reqs)
            self._check_one_request_per_broker(c)
        elif c.kind == "loadmd":
            if wt.state == "ok" and wt.value is True:
                self._check_loadmd(c)
            elif wt.state == "err" and wt.value.check(C.KafkaUnavailableError) and not self.closed:
                self._check_fallback(c)
            elif wt.state == "ok" and wt.value is None and not self.closed and not getattr(c, "pre_closed", False):
                # the load gave up without an answer (an internal cancellation is reported as None): the same obligation applies -
                # nobody cancelled this call from outside, so every known broker and bootstrap host must have been tried first
                self.labels.add("metadata-load-gave-up-with-none")
                self._check_fallback(c)
        elif c.kind == "loadcoord":
            if wt.state == "err" and wt.value.check(C.CoordinatorNotAvailable) and isinstance(wt.value.value.__cause__, C.KafkaUnavailableError) and not getattr(c, "shared_lookup", False) and not self.closed:
                self._check_fallback(c)
        if c.kind == "hb" and wt.state == "err" and wt.value.check(C.RequestTimedOutError) and c.deadline is not None and fired_t < c.deadline - 1e-9:
            self.note("C11.bounded", "C11.timed-out-early/hb", "coordinator request #%d issued t=%.3f with timeout %.2fs (minimum honoured) failed as timed out already at t=%.3f" % (c.no, c.time, c.timeout, fired_t))
        if wt.state == "err" and wt.value.check(*INTERNAL_ERRORS):
            self.note("C07.call", "C07.internal-error/%s/%s" % (c.kind, wt.value.type.__name__), "call #%d (%s) failed with a programming error: %s" % (c.no, c.kind, wt.value.getErrorMessage()))
        if c.kind == "produce" and wt.state == "ok":
            self.produce_done += 1
        if c.kind == "fetch" and wt.state == "ok":
            self.fetch_done += 1
        if c.kind in ("produce", "fetch") and wt.state == "ok":
            self.discovery_done = True

    def _answers(self, c, reqs):
        """{(t, p): (reply info, value the broker answered)} for call c"""
        out = {}
        for r in reqs:
            info = r["reply"]
            if c.kind == "produce":
                for k, code in info.get("partitions", {}).items():
                    ack = [a for a in self.cluster.acks if a["req_seq"] == r["seq"] and (a["topic"], a["pid"]) == k][0]
                    out[k] = (info, (code, ack["base"]))
            elif c.kind == "fetch":
                for k, d in info.get("fetch", {}).items():
                    out[k] = (info, (d[0],))
            elif c.kind == "ocommit":
                for k, d in info.get("commits", {}).items():
                    out[k] = (info, (d[0],))
            elif c.kind == "ofetch":
                for k, d in info.get("offsets", {}).items():
                    out[k] = (info, (d[1], d[0]))
            elif c.kind == "offsets":
                for t in r["req"]["topics"]:
                    for p in t["partitions"]:
                        out[(t["topic"], p["partition"])] = (info, None)
        return out

    def _value_of(self, c, resp):
        if c.kind == "produce":
            return (resp.error, resp.offset)
        if c.kind == "fetch":
            return (resp.error,)
        if c.kind == "ocommit":
            return (resp.error,)
        if c.kind == "ofetch":
            return (resp.offset, resp.error)
        return None

    def _check_success(self, c, value, reqs):
        cl = self.cluster
        if c.kind == "produce" and c.acks == 0:
            if value:
                self.note("C07.payload-order", "C07.acks0-result", "produce with acks=0 returned %r" % (value,))
            # success of a send that expects no reply means every payload was handed to a connection; a payload that never reached the
            # wire is a FAILED send - it must be reported, and it invalidates the cached routing (C08) so that the next one re-resolves
            mine = [x for x in self.writes if x.get("call") == c.no and x["api"] == "produce"]
            written = set(k for x in mine for k in x.get("keys", []))
            lost = [k for k in c.keys if k not in written]
            if lost and not self.closed:
                self.note("C08.reresolve-after-stale", "C08.failed-noreply-send-reported-as-success", "produce call #%d (acks=0) succeeded although payloads %r were never written to any connection (their broker could not be reached): the failure is hidden and the routing that led there is kept" % (c.no, lost))
                self.note("C07.accounting", "C07.accounting/acks0-unwritten-success", "produce call #%d (acks=0) succeeded although payloads %r were never written" % (c.no, lost))
            return
        try:
            got = [(r.topic, r.partition) for r in value]
        except Exception:  # noqa
            self.note("C07.payload-order", "C07.result-shape/%s" % c.kind, "call #%d returned %.200r" % (c.no, value))
            return
        if got != c.keys:
            kind = "order" if sorted(got) == sorted(c.keys) else "set"
            if kind == "set" and c.kind in ("produce", "fetch"):
                # the broker's delivered replies cover every payload, yet the decoded result does not: the reply was read with a decoder
                # that does not match the version of the request (C04, "the matching decoder is used for the reply")
                ans0 = self._answers(c, reqs)
                if all(k in ans0 and cl.delivered(ans0[k][0]) for k in c.keys):
                    vers = sorted(set(r["req"]["api_version"] for r in reqs))
                    self.note("C04.matching-decoder", "C04.reply-misdecoded/%s" % c.kind, "call #%d (%s v%r, broker advertises up to %r/%r): the replies delivered cover %r but the decoded result lists %r" % (
                        c.no, c.kind, vers, self.config.get("pmax"), self.config.get("fmax"), c.keys, got))
            self.note("C07.payload-order", "C07.payload-order/%s/%s" % (kind, c.kind), "call #%d payloads %r, responses for %r" % (c.no, c.keys, got))
            return
        for resp in value:
            if getattr(resp, "error", 0) in (3, 6) and c.kind in ("produce", "fetch", "offsets"):
                self.stale.setdefault(resp.topic, self.evseq)
                self.labels.add("not-leader-answer-consumed")
        ans = self._answers(c, reqs)
        if len(set(self._node_of(r) for r in reqs)) >= 2 and len(c.keys) >= 3:
            self.nt.add("multi-broker-call")
        for resp in value:
            k = (resp.topic, resp.partition)
            if k not in ans:
                self.note("C07.responses-from-broker", "C07.response-without-request/%s" % c.kind, "call #%d returned a response for %r but no request carrying it reached a broker" % (c.no, k))
                continue
            info, want = ans[k]
            if not cl.delivered(info):
                self.note("C11.success-needs-reply", "C11.success-without-delivered-reply/%s" % c.kind, "call #%d succeeded but the reply for %r was never completely delivered" % (c.no, k))
            if want is not None and self._value_of(c, resp) != want:
                self.note("C04.matching-decoder" if c.kind in ("produce", "fetch") else "C07.responses-from-broker", "C07.response-value/%s" % c.kind,
                          "call #%d: response for %r is %r, the broker answered %r" % (c.no, k, self._value_of(c, resp), want))
        if any(n == -1 for n in [0]):
            pass

    def _node_of(self, r):
        return r["node"]

    def _check_failure(self, c, fail, reqs):
        from afkak import common as C

        cl = self.cluster
        if fail.check(C.FailedPayloadsError):
            try:
                responses, failed = fail.value.args[0], fail.value.args[1]
                rk = [(r.topic, r.partition) for r in responses]
                fk = [(p.topic, p.partition) for p, _ in failed]
            except Exception:  # noqa
                self.note("C07.accounting", "C07.failedpayloads-shape", "FailedPayloadsError args %.200r" % (fail.value.args,))
                return
            if c.kind == "produce" and c.acks == 0:
                # no acknowledgements requested: there are no responses to account with; failed payloads must be
                # payloads of the call, each at most once
                if rk or len(set(fk)) != len(fk) or not set(fk) <= set(c.keys):
                    self.note("C07.accounting", "C07.accounting/acks0", "call #%d (acks=0) payloads %r: responses %r, failed %r" % (c.no, c.keys, rk, fk))
                return
            if sorted(rk + fk) != sorted(c.keys):
                kind = "duplicated" if len(rk + fk) > len(c.keys) else "lost"
                self.note("C07.accounting", "C07.accounting/%s/%s" % (kind, c.kind), "call #%d payloads %r: responses %r + failed %r do not account for each exactly once" % (c.no, c.keys, rk, fk))
                return
            if rk != [k for k in c.keys if k in set(rk)]:
                self.note("C07.payload-order", "C07.payload-order/partial/%s" % c.kind, "call #%d partial failure: responses %r not in payload order %r" % (c.no, rk, c.keys))
            ans = self._answers(c, reqs)
            for k in rk:
                if k in ans and not cl.delivered(ans[k][0]):
                    self.note("C07.accounting", "C07.accounting/response-without-reply", "call #%d reports a response for %r whose reply was never delivered" % (c.no, k))
            if rk and fk:
                self.nt.add("partial-failure")
            else:
                self.labels.add("total-failure")
            for pl, f in failed:
                if hasattr(f, "check") and f.check(C.RequestTimedOutError):
                    self.labels.add("timed-out")
                    self.nt.add("timed-out-request")
                    # C11 (1): a warm call's request is not given up as timed out before the configured timeout has passed
                    if c.deadline is not None and c.watch.fired[0][1] < c.deadline - 1e-9 and not getattr(c, "_early_noted", False):
                        c._early_noted = True
                        self.note("C11.bounded", "C11.timed-out-early/%s" % c.kind, "call #%d (%s) issued t=%.3f with timeout %.2fs reported payload %r as timed out already at t=%.3f" % (c.no, c.kind, c.time, c.timeout, (pl.topic, pl.partition), c.watch.fired[0][1]))
                    # C11 (last sentence): with disconnect-on-timeout the silent connection is dropped - every time, not only the first
                    if self.config["dot"] and not self.closed and c.warm:
                        k = (pl.topic, pl.partition)
                        for x in self.writes:
                            if x.get("call") == c.no and k in x.get("keys", []) and not x.get("bootstrap"):
                                conn = x["conn"]
                                answered = any(r["req"]["correlation_id"] == x["req"]["correlation_id"] and r["conn"] is conn and self.cluster.delivered(r["reply"]) for r in reqs)
                                if not answered and not conn.client_closed and not conn.dropped and not conn.lost_delivered:
                                    self.nt.add("silent-connection-at-timeout")
                                    self.note("C11.disconnect-on-timeout", "C11.silent-connection-not-dropped", "call #%d timed out waiting on %r (disconnect_on_timeout=True) but the client did not drop that connection (it was the %s timeout on it or its predecessors for node %r)" % (
                                        c.no, conn, "first" if not any(getattr(y, "_timed_out_before", False) for y in [conn]) else "repeated", x["node"]))
                                elif not answered:
                                    self.nt.add("silent-connection-dropped-at-timeout")
        elif fail.check(C.BrokerResponseError) and not c.foe:
            from afkak.common import CoordinatorNotAvailable

            if not (c.kind in ("ofetch", "ocommit") and fail.check(CoordinatorNotAvailable)):
                # fail_on_error=False yet an error code raised: judged by the producer-level checks (C01/C09), where
                # the consequence (acknowledged payloads re-sent) is observable; here it is only a statistic
                self.labels.add("raised-despite-fail_on_error-false")
        if fail.check(C.RequestTimedOutError):
            self.labels.add("timed-out")
        # staleness (C08.3): a not-leader / unknown-partition answer or a failed send invalidates routing
        if fail.check(C.NotLeaderForPartitionError, C.UnknownTopicOrPartitionError) and c.kind in ("produce", "fetch", "offsets"):
            try:
                self.stale.setdefault(fail.value.args[0].topic, self.evseq)
                self.labels.add("not-leader-answer-consumed")
            except Exception:  # noqa
                pass
        broker_said_7 = any(v is not None and 7 in v[:1] + v[-1:] and cl.delivered(i) for (i, v) in self._answers(c, reqs).values()) or any(
            o["code"] == 7 for o in cl.overrides) or any(7 == code for r in reqs for code in [x[0] if isinstance(x, tuple) else x for x in list(r["reply"].get("partitions", {}).values()) + list(r["reply"].get("fetch", {}).values())])
        if fail.check(C.RequestTimedOutError) and c.kind == "offsets":
            broker_said_7 = broker_said_7 or any(cl.delivered(r["reply"]) for r in reqs)  # list-offsets replies are not itemised in the ledger
        if fail.check(C.RequestTimedOutError) and not broker_said_7 and c.deadline is not None and c.watch.fired[0][1] < c.deadline - 1e-9:
            self.note("C11.bounded", "C11.timed-out-early/%s" % c.kind, "call #%d (%s) issued t=%.3f with timeout %.2fs failed as timed out already at t=%.3f" % (c.no, c.kind, c.time, c.timeout, c.watch.fired[0][1]))
        if fail.check(C.FailedPayloadsError):
            # the routing a failed send used is invalid from now on: the leaders of the failed payloads' topics, or - for the requests that
            # go to a group's coordinator - that coordinator
            if c.kind in ("ofetch", "ocommit"):
                if c.group is not None:
                    self.coord_stale.setdefault(c.group, self.evseq)
                    self.labels.add("send-to-coordinator-failed")
            else:
                try:
                    failed_topics = set(p.topic for p, _ in fail.value.failed_payloads)
                except Exception:  # noqa
                    failed_topics = set(k[0] for k in c.keys)
                for t in failed_topics:
                    self.stale.setdefault(t, self.evseq)

    def _check_one_request_per_broker(self, c):
        if c.watch.state == "err":
            from afkak import common as C

            if not c.watch.value.check(C.FailedPayloadsError, C.BrokerResponseError, C.RequestTimedOutError):
                return
        ws = [x for x in self.writes if x["call"] == c.no and x["evseq"] >= c.evseq0 and not x["bootstrap"]]
        if c.kind == "produce" and False:
            return
        frames = {}
        for x in ws:
            frames.setdefault(x["frame"], x)
        seen = []
        by_node = {}
        for f, x in frames.items():
            seen += x.get("keys", [])
            by_node.setdefault(x["node"], []).append(x)
        # every payload in at most one request of the call; payloads that got a response in exactly one
        # (a request to a broker that never connected may be cancelled by its timeout before it is ever written)
        answered = list(c.keys)
        if c.watch.state == "err" and c.watch.value.check(C_FailedPayloadsError()):
            try:
                answered = [(r.topic, r.partition) for r in c.watch.value.value.args[0]]
            except Exception:  # noqa
                answered = []
        elif c.watch.state == "err":
            answered = []
        dup = sorted(set(k for k in seen if seen.count(k) > 1))
        missing = sorted(k for k in answered if k not in seen)
        extra = sorted(k for k in seen if k not in c.keys)
        if ws and (dup or missing or extra):
            kind = "duplicated" if dup else "missing" if missing else "foreign"
            self.note("C07.one-request-per-broker", "C07.payload-in-requests/%s/%s" % (kind, c.kind), "call #%d payloads %r were written as %r (duplicated %r, answered-but-never-written %r, foreign %r)" % (c.no, c.keys, seen, dup, missing, extra))
        for node, xs in by_node.items():
            if len(xs) > 1 and c.kind not in ("ofetch",):
                self.note("C07.one-request-per-broker", "C07.several-requests-to-one-broker/%s" % c.kind, "call #%d wrote %d different requests to node %r" % (c.no, len(xs), node))

    def _check_routing(self):
        """every broker-aware frame went to the node the client's metadata named (C07.1), and no request for a topic
        with known-stale routing was written before a Metadata request covering it (C08.3)"""
        new = self.writes[self.routed_upto:]
        self.routed_upto = len(self.writes)
        for x in new:
            if x["bootstrap"] or x["after_close"]:
                continue
            api = x["api"]
            call = self.calls[x["call"]] if x["call"] is not None and 0 <= x["call"] < len(self.calls) else None
            since = call.evseq0 if call is not None else x["evseq"]
            if api in ("produce", "fetch", "list_offsets"):
                for k in x["keys"]:
                    ok = set([x["cache"].get(k)])
                    hist = self.leader_hist.get(k, [])
                    for i, (seq, node) in enumerate(hist):
                        nxt = hist[i + 1][0] if i + 1 < len(hist) else 10 ** 9
                        if nxt >= since and seq <= x["evseq"]:
                            ok.add(node)
                    if x["node"] not in ok:
                        self.note("C07.routed-to-leader", "C07.routed-to-leader/%s" % api, "%s payload %r written to node %r; the client's metadata named %r as its leader" % (api, k, x["node"], sorted(ok, key=repr)))
                    t = k[0]
                    # only requests of calls STARTED after the invalidation count (a request queued earlier for a
                    # broker that was not yet connected is merely written late)
                    if t in self.stale and self.stale[t] is not None and call is not None and call.evseq0 > self.stale[t]:
                        self.note("C08.reresolve-after-stale", "C08.request-on-stale-routing/%s" % api, "%s of call #%s (started at event %s) for topic %r written although its routing was invalidated at event %s and no Metadata request covering it was sent since" % (api, x["call"], since, t, self.stale[t]))
                        self.stale[t] = None
            elif api in ("offset_commit", "offset_fetch", "heartbeat"):
                g = x["req"]["group"]
                if call is None:
                    # a frame that cannot be attributed to one call (heartbeats carry no tag) was routed when some still-unresolved call
                    # for that group was issued - possibly long before it is written (queued behind a connection attempt)
                    kinds = {"heartbeat": "hb", "offset_fetch": "ofetch", "offset_commit": "ocommit"}
                    cands = [c2.evseq0 for c2 in self.calls if c2.kind == kinds[api] and c2.group == g and c2.evseq0 <= x["evseq"]
                             and (c2.watch is None or c2.watch.state == "pending" or c2.watch.fired[0][0] >= self.world.step_no)]
                    if cands:
                        since = min(cands)
                ok = set([x.get("coord_cache")])
                hist = self.coord_hist.get(g, [])
                for i, (seq, node) in enumerate(hist):
                    nxt = hist[i + 1][0] if i + 1 < len(hist) else 10 ** 9
                    if nxt >= since and seq <= x["evseq"]:
                        ok.add(node)
                if api != "heartbeat" and call is not None and self.coord_stale.get(g) is not None and call.evseq0 > self.coord_stale[g]:
                    self.note("C08.reresolve-after-stale", "C08.request-on-stale-routing/%s" % api, "%s of call #%s (started at event %s) for group %r written although a send to its coordinator had failed at event %s and the coordinator was not looked up since" % (api, x["call"], since, g, self.coord_stale[g]))
                    self.coord_stale[g] = None
                if x["node"] not in ok:
                    self.note("C07.routed-to-coordinator", "C07.routed-to-coordinator/%s" % api, "%s for group %r written to node %r; coordinator known to the client: %r" % (api, g, x["node"], sorted(ok, key=repr)))
            elif api == "find_coordinator":
                self.coord_stale.pop(x["req"]["group"], None)
            elif api == "metadata":
                topics = x["req"]["topics"]
                for t in list(self.stale):
                    if not topics or t in topics:
                        self.stale.pop(t, None)

    # ------------------------------------------------------------------ C08: cache mirrors replies
    def _view(self, t):
        from afkak.common import TopicAndPartition

        c = self.client
        parts = list(c.topic_partitions.get(t, []))
        leaders = []
        for p in parts:
            bm = c.topics_to_brokers.get(TopicAndPartition(t, p), "missing")
            leaders.append(bm if bm in (None, "missing") else (bm.node_id, bm.host, bm.port))
        return (parts, leaders, c.topic_errors.get(t, "absent"))

    @staticmethod
    def _said(brokers, tl, t):
        bm = dict((n, (n, h, p)) for n, h, p in brokers)
        for terr, name, parts in tl:
            if name == t:
                ps = sorted(parts, key=lambda x: x[1])
                return ([p[1] for p in ps], [bm.get(p[2]) if p[2] != -1 else None for p in ps], terr)
        return None

    def _check_loadmd(self, c):
        """(1a) the call succeeded: the view of every topic in the reply that completed it equals that reply"""
        cl = self.cluster
        cands = [i for i in cl.metadata_replies if i["req_seq"] > c.seq0 and cl.delivered(i) and i.get("sent_step") is not None]
        want_topics = sorted(c.keys)
        cands = [i for i in cands if sorted(t for _, t, _ in i["metadata"][1]) == want_topics or (not want_topics and i["metadata"][2])]
        # the reply this call consumed is the answer to ITS request (every load sends its own): an older or newer reply with the same
        # topics - e.g. a held one released later - must not be mistaken for it
        own = [i for i in cands if getattr(c, "corr", None) is not None and i.get("corr") == c.corr]
        if own:
            cands = own
        if not cands:
            return
        views = {}
        for t in set(t for i in cands for _, t, _ in i["metadata"][1]):
            views[t] = self._view(t)
        ok = False
        for i in reversed(cands):
            brokers, tl, full = i["metadata"]
            if all(views[t] == self._said(brokers, tl, t) or (self._said(brokers, tl, t)[0] == [] and views[t][0] == [] and views[t][2] == self._said(brokers, tl, t)[2]) for _, t, _ in tl):
                ok = True
                self.witnessed = (brokers, tl, full)
                self.witnessed_seq = i["req_seq"]
                self.witnessed_deliv = i.get("delivered_evseq", self.evseq)
                for _, t, _ in tl:
                    self.witnessed_topic[t] = i.get("delivered_evseq", self.evseq)
                if full and brokers:
                    self._check_removed_brokers(brokers)
                break
        if not ok:
            i = cands[-1]
            brokers, tl, full = i["metadata"]
            bad = [t for _, t, _ in tl if views[t] != self._said(brokers, tl, t)][:1]
            t = bad[0] if bad else "?"
            said = self._said(brokers, tl, t)
            what = "partitions" if said and views[t][0] != said[0] else "leaders" if said and views[t][1] != said[1] else "topic-error"
            self.note("C08.mirror", "C08.view-differs-from-reply/%s" % what, "load_metadata_for_topics%r succeeded; view of %r is %r, the reply said %r" % (tuple(c.keys), t, views.get(t), said))
        if len([i for i in cl.metadata_replies if cl.delivered(i)]) >= 2:
            self.nt.add("several-metadata-replies")

    def _check_removed_brokers(self, brokers):
        w = self.world
        keep = set(n for n, _, _ in brokers)
        for conn in w.conns:
            node = conn.userdata.get("node")
            if hasattr(conn.attempt.factory, "node_id") and conn.attempt.factory.node_id not in keep and not conn.client_closed and not conn.lost_delivered:
                self.nt.add("full-refresh-removes-connected-broker")
                self.note("C08.removed-brokers-closed", "C08.removed-broker-connection-open", "full refresh lists brokers %r; connection %r of broker client node %r was not closed" % (sorted(keep), conn, conn.attempt.factory.node_id))
            elif hasattr(conn.attempt.factory, "node_id") and conn.attempt.factory.node_id not in keep:
                self.nt.add("full-refresh-removes-connected-broker")
        _ = node

    def _check_view(self):
        """(1b) after every event the view of each topic is empty or equals one whole delivered reply for it"""
        cl = self.cluster
        c = self.client
        if c.topic_partitions is None or self.closed:
            return
        alld = [i for i in cl.metadata_replies if cl.delivered(i)]
        for t in set(list(c.topic_partitions) + list(c.topic_errors)):
            v = self._view(t)
            if v == ([], [], "absent"):
                continue
            ok = False
            delivered = [i for i in alld if i.get("delivered_evseq", self.evseq) >= self.witnessed_topic.get(t, 0)]
            for i in delivered:
                brokers, tl, _ = i["metadata"]
                s = self._said(brokers, tl, t)
                if s is None:
                    continue
                if v == s or (s[0] == [] and v[0] == [] and v[2] == s[2]):
                    ok = True
                    break
            if not ok:
                key = "C08.view-matches-no-reply"
                if getattr(self, "_view_flagged", None) == (t, repr(v)):
                    continue
                self._view_flagged = (t, repr(v))
                self.note("C08.mirror", key, "view of topic %r is %r, which no delivered metadata reply (since the last witnessed one) said" % (t, v))

    # ------------------------------------------------------------------ C11: timers
    def _check_timers(self):
        """(2) the timeout timer of a request is released as soon as its reply arrives: for every deadline D of a warm
        call, active afkak delayed calls due at D <= broker requests of such calls still without a delivered reply"""
        if self.closed:
            return
        # only while every call in progress is warm (cold calls and broker-agnostic calls arm timers at instants
        # the harness cannot predict)
        if any(c.watch is not None and c.watch.state == "pending" and not (c.warm and c.deadline is not None) for c in self.calls):
            return
        w = self.world
        due = {}
        for dc in w.afkak_calls():
            due[round(dc.getTime(), 9)] = due.get(round(dc.getTime(), 9), 0) + 1
        budget = {}
        for c in self.calls:
            if c.deadline is None or c.watch is None:
                continue
            D = round(c.deadline, 9)
            if c.watch.state != "pending":
                budget.setdefault(D, 0)
                continue
            if c.kind in ("hb",):
                budget[D] = budget.get(D, 0) + 1
                continue
            ans = self._requests_of(c)
            unanswered = c.nreq - sum(1 for r in ans if self.cluster.delivered(r["reply"]))
            budget[D] = budget.get(D, 0) + max(unanswered, 0)
        for D, allowed in budget.items():
            if due.get(D, 0) > allowed:
                if getattr(self, "_timer_flagged", None) == D:
                    continue
                self._timer_flagged = D
                self.note("C11.timer-released", "C11.timer-left-behind", "%d delayed call(s) due at t=%.3f but only %d broker request(s) with that deadline still await a reply" % (due[D], D, allowed))

    # ------------------------------------------------------------------ C07 (4): fallback order of broker-agnostic requests
    def _check_fallback(self, c):
        """A broker-agnostic call failed as unavailable: every known broker must have been tried (connected ones
        first) and then every bootstrap host.  The call's request frames are recognised by its correlation id."""
        w = self.world
        fire_seq = self.evseq
        mine = [x for x in self.writes if x["api"] in ("metadata", "find_coordinator") and x["req"]["correlation_id"] == c.corr and x["evseq"] >= c.evseq0]
        boot_w = [x for x in mine if x["bootstrap"]]
        broker_w = [x for x in mine if not x["bootstrap"]]
        boots = [a for a in w.attempt_log if not hasattr(a.factory, "node_id") and c.evseq0 <= getattr(a, "evseq", 0) <= fire_seq]
        # ordering is judged against bootstrap connections that demonstrably carried THIS call's frame
        t_boot = min([x["evseq"] for x in boot_w] + [fire_seq])
        self.nt.add("unaware-request-exhausted-all-hosts")
        missing = [h for h in c.bootstrap0 if not any((a.host, a.port) == tuple(h) for a in boots)]
        if missing:
            self.note("C07.fallback", "C07.fallback/bootstrap-host-not-tried", "broker-agnostic call #%d failed as unavailable but bootstrap host(s) %r were never dialled (dialled: %r)" % (c.no, missing, [(a.host, a.port) for a in boots]))
        if c.witnessed0 is None or self.witnessed is None:
            return
        brokers = [b for b in c.witnessed0[0] if b in self.witnessed[0]]
        order = []
        for n, h, p in brokers:
            cur = self.cluster.brokers.get(n)
            if cur is None or (cur.host, cur.port) != (h, p):
                continue
            wrote = [x for x in broker_w if x["node"] == n]
            pend = [a for a in w.attempt_log if getattr(a.factory, "node_id", None) == n and getattr(a, "evseq", 0) <= t_boot and (getattr(a, "evseq", 0) >= c.evseq0 or getattr(a, "resolved_evseq", 10 ** 9) >= c.evseq0)]
            if wrote:
                was = (n in c.connected0) if getattr(c, "connected0", None) is not None else wrote[0]["conn"].opened_step < c.step
                order.append((wrote[0]["evseq"], was, n))
                if wrote[0]["evseq"] > t_boot:
                    self.note("C07.fallback", "C07.fallback/bootstrap-before-brokers", "call #%d: bootstrap hosts were used before known broker %r received the request" % (c.no, n))
            elif not pend:
                earlier = [a for a in w.attempt_log if getattr(a.factory, "node_id", None) == n and getattr(a, "evseq", 0) < c.evseq0]
                if earlier and earlier[-1].outcome in ("refused", "refused-sync", "timeout"):
                    # the broker's client is between reconnection attempts (back-off): the request waited in its queue until it timed
                    # out, which is "tried" although neither a write nor an attempt falls into the call's lifetime
                    self.labels.add("fallback-with-broker-in-reconnect-backoff")
                    continue
                self.note("C07.fallback", "C07.fallback/known-broker-not-tried", "broker-agnostic call #%d failed as unavailable but known broker %r (%s:%s) was never tried" % (c.no, n, h, p))
        order.sort()
        seen_unconnected = False
        for _, was_connected, n in order:
            if not was_connected:
                seen_unconnected = True
            elif seen_unconnected:
                self.note("C07.fallback", "C07.fallback/unconnected-before-connected", "call #%d tried an unconnected broker before connected broker %r" % (c.no, n))

    # ------------------------------------------------------------------
    def _check_addresses(self):
        # address of every new broker-client attempt = an address some metadata / coordinator reply gave that node (C08.2)
        w = self.world
        new = w.attempt_log[self.seen_attempts:]
        self.seen_attempts = len(w.attempt_log)
        for a in new:
            if not hasattr(a.factory, "node_id"):
                continue
            node = a.factory.node_id
            said = set()
            for i in self.cluster.metadata_replies:
                if self.cluster.delivered(i):
                    for n, h, p in i["metadata"][0]:
                        if n == node:
                            # ordered by DELIVERY: a reply generated earlier but delivered later (held, slow) is the newer one for the client
                            said.add((h, p, i.get("delivered_evseq", self.evseq)))
            for r in self.cluster.replies:
                if r["api"] == "find_coordinator" and r.get("coordinator", (1, 0))[0] == 0 and r["coordinator"][1] == node and self.cluster.delivered(r):
                    r.setdefault("delivered_evseq", self.evseq)
                    said.add((r["coordinator"][2], r["coordinator"][3], r["delivered_evseq"]))
            if said and (a.host, a.port) not in set((h, p) for h, p, _ in said):
                self.note("C08.addresses", "C08.connect-to-unknown-address", "broker client for node %r dialled %s:%s; replies named %r" % (node, a.host, a.port, sorted(said)))
            elif said and self.witnessed is not None:
                wit = [(h, p) for n, h, p in self.witnessed[0] if n == node]
                newer = [(h, p) for h, p, s in said if s >= getattr(self, "witnessed_deliv", 0)]
                if wit and (a.host, a.port) not in set(wit + newer):
                    self.nt.add("broker-readdressed")
                    # C07 too: payloads are to be sent to the broker the CURRENT metadata names - at the address it names
                    self.note("C07.routed-to-leader", "C07.routed-to-leader/stale-address", "broker client for node %r dials %s:%s; the metadata the client last consumed puts that broker at %r" % (node, a.host, a.port, wit))
                    self.note("C08.addresses", "C08.connect-to-stale-address", "broker client for node %r dialled %s:%s although the last metadata reply the client consumed says %r" % (node, a.host, a.port, wit))

    def check(self, step):
        self._after_event()

    def finish(self):
        w = self.world
        cl = self.cluster
        # faults stop: brokers come back, refusals end, overrides and holds are lifted (held replies are released,
        # i.e. arrive late); then everything plays out and every call must resolve
        for node, b in cl.brokers.items():
            if not b.up:
                cl.broker_up(node)
        cl.refusing.clear()
        cl.overrides = []
        cl.holds = []
        while cl.held:
            cl.release(0)
            self.labels.add("late-reply-released")
        for a in list(self.unresolved):
            if a.hung and not a.resolved:
                pass
        horizon = w.now + 40 * max(self.timeout, 35.0 if any(getattr(c, "min_timeout", None) for c in self.calls) else 0) + 60.0
        n = 0
        quiescent = False
        while n < 6000:
            p = w.pending()
            if p:
                self._process(p[0])
            else:
                nt = w.next_timer()
                if nt is None:
                    quiescent = True
                    break
                if nt[0] > horizon:
                    break
                self._timer()
            n += 1
            self.raise_noted()
        if not quiescent:
            # step cap or virtual-time horizon reached with things still scheduled: inconclusive, never a violation
            self.ctx.inconclusive += 1
            self.labels.add("inconclusive-horizon")
            return
        for c in self.calls:
            if c.watch is not None and c.watch.state == "pending" and not self.closed:
                sig = "C11.never-resolved/%s" % c.kind
                self.note("C11.bounded", sig, "call #%d (%s) issued at t=%.3f never resolved (now t=%.3f, nothing left to happen)" % (c.no, c.kind, c.time, w.now))
        if not self.closed:
            self._do_close()
            m = 0
            while m < 500:
                p = w.pending()
                if not p:
                    break
                self._process(p[0])
                m += 1
                self.raise_noted()
        if cl.field_errors:
            self.note("C04.fields", "C04.fields/header/client-id", cl.field_errors[0])
        if cl.grammar_errors:
            self.note("C04.grammar", "C04.grammar/" + cl.grammar_errors[0]["error"][:40], "request rejected by the strict parser: %r" % cl.grammar_errors[0])
        self._check_versions()
        left = w.afkak_calls()
        if left and not self.noted:
            self.note("C20.quiet-after-close" if self.closed else "C11.timer-released", "C20.timers-left-after-close" + getattr(self, "sfx", ""), "delayed calls left after close and quiescence: %r" % [repr(d)[:120] for d in left[:3]])
        self.obs = {"calls": len(self.calls), "connections": len(w.conns), "requests_seen_by_brokers": len(cl.requests), "faults": self.faults_injected, "labels": sorted(self.labels | self.nt)}

    def _check_versions(self):
        """C04(b): produce/fetch header versions within the advertised range and in {0,1,2}; 0 after failed discovery"""
        cl = self.cluster
        av = cl.api_versions
        table = dict((k, (lo, hi)) for k, lo, hi in av) if isinstance(av, list) else None
        disc = self.config["discovery"]
        for r in cl.requests:
            req = r["req"]
            if req["api"] not in ("produce", "fetch"):
                continue
            v = req["api_version"]
            if disc in ("off", "close", "silent", "error"):
                if v != 0:
                    self.note("C04.fallback-v0", "C04.version-after-failed-discovery/%s" % req["api"], "discovery %s but %s v%d was sent" % (disc, req["api"], v))
            else:
                lo, hi = table[req["api_key"]]
                if not (lo <= v <= hi) or v not in (0, 1, 2):
                    self.note("C04.version-advertised", "C04.version-outside-advertised/%s" % req["api"], "%s v%d sent; broker advertised %d..%d (table order %s)" % (req["api"], v, lo, hi, self.config["table"]))
        if disc == "on" and self.produce_done and self.fetch_done:
            self.nt.add("negotiated-produce-and-fetch")

    def nontrivial(self):
        return bool(self.nt)
