"""Engine CONS: real KafkaClient + Consumer (single partition) on the simulated
cluster, with a scripted processor.  Serves C02 (every message once, in order,
never concurrently), C03 (commits never run ahead), C13 (stop / shutdown), C14
(retries, offset reset, buffer growth) and the consumer half of C08/C12."""
from hypothesis import strategies as st

from .. import refproto as rp
from .. import simnet
from . import cl as _cl
from .base import Engine

WAITS = [0.001, 0.05, 0.1, 0.5, 1.0, 5.0, 31.0]
CONNECT_LATENCY = 0.005
GROUP = "cg"
TOPIC = "t0"
FETCH_CODES = [3, 5, 6, 7, 2, 87]
COMMIT_CODES = [14, 15, 16, 22, 25, 27, 12, 87]


@st.composite
def log_strategy(draw, big=False):
    """list of batch specs: {"wrapper": bool, "gap": int, "recs": [[key kind, value size]...], "inner_gaps": [...]}"""
    n = draw(st.integers(0, 8))
    out = []
    for _ in range(n):
        wrapper = draw(st.integers(0, 2)) == 0
        nrec = draw(st.integers(1, 5)) if wrapper else 1
        sizes = [draw(st.sampled_from([0, 3, 3, 10, 40, 120] + ([700, 5000] if big else []))) for _ in range(nrec)]
        out.append({"wrapper": wrapper, "gap": draw(st.sampled_from([0, 0, 0, 1, 3])), "sizes": sizes, "nullv": draw(st.integers(0, 9)) == 0,
                    "inner_gaps": draw(st.lists(st.integers(0, 2), min_size=1, max_size=3)) if wrapper and draw(st.booleans()) else None})
    return out


def config_strategy(flavour="mixed"):
    @st.composite
    def cfg(draw):
        nb = draw(st.integers(1, 2))
        group = draw(st.sampled_from([True, True, True, False])) if flavour != "nogroup" else False
        big = draw(st.integers(0, 4)) == 0
        buf = draw(st.sampled_from([64, 300, 4096, 4096, 65537, 2 ** 20, 2 ** 20 + 1] if not big else [64, 300]))
        maxbuf = draw(st.sampled_from([None, None, buf, buf * 16, 2 ** 20 * 2, 2 ** 20 * 3]))
        if maxbuf is not None and maxbuf < buf:
            maxbuf = buf
        init = draw(st.sampled_from([0.05, 0.1, 1.0]))
        return {
            "brokers": nb, "topics": [{"name": TOPIC, "leaders": [draw(st.integers(1, nb))], "magic": draw(st.sampled_from([0, 1]))}],
            "timeout_ms": draw(st.sampled_from([1000, 10000])), "dot": draw(st.booleans()), "discovery": draw(st.sampled_from(["off", "on", "on"])),
            "table": "dense", "pmax": 2, "fmax": 2, "bootstrap": [0], "rseed": draw(st.integers(0, 99)),
            "log": draw(log_strategy(big)), "start_base": draw(st.sampled_from([0, 0, 5, 1000])),
            "group": group, "every_n": draw(st.sampled_from([0, 1, 3])) if group else None, "every_ms": draw(st.sampled_from([0, 0, 500])) if group else None,
            "buffer": buf, "max_buffer": maxbuf, "retry_init": init, "retry_max": draw(st.sampled_from([init, round(init * 1.3, 4), round(init * 2.0, 4), 0.5 if init <= 0.5 else 1.0, 30.0])),
            "max_attempts": draw(st.sampled_from([0, 0, 1, 2, 3, 5])), "reset": draw(st.sampled_from([None, None, -2, -1])),
            "procs": draw(st.lists(st.sampled_from(["sync_ok"] * 6 + ["async", "async", "async", "async_chained", "sync_raise", "sync_raise_cancelled", "stop_inside", "commit_inside"]), max_size=14)),
        }

    return cfg()


class Invocation(object):
    def __init__(self, no, msgs, evseq, time, run):
        self.no = no
        self.msgs = msgs  # [(offset, key, value)]
        self.evseq = evseq
        self.time = time
        self.run = run
        self.mode = None
        self.d = None
        self.state = "running"  # running | ok | failed | cancelled
        self.done_evseq = None


class CONSEngine(Engine):
    NAME = "CONS"
    FLAVOUR = "mixed"
    MACROS = ["steady", "steady", "asyncoverlap", "commitretry", "stopmid", "shutdownmid", "oor", "bigmsg", "failfetch", "failempty", "crash"]
    MACRO_ONE_IN = 5

    @classmethod
    def config_strategy(cls):
        return config_strategy(cls.FLAVOUR)

    def __init__(self, config, ctx, props=None):
        Engine.__init__(self, config, ctx, props)
        self.world, self.cluster, self.client, _ = _cl.build(config)
        w, cl = self.world, self.cluster
        self.timeout = config["timeout_ms"] / 1000.0
        self.part = cl.topics[TOPIC][0]
        self.part.next_offset = self.part.log_start = config["start_base"]
        self.vno = 0
        for b in config["log"]:
            self._append(b)
        self.evseq = 0
        self.script = []
        self.nt = set()
        self.faults = 0
        self.runs = []  # one per start(): dict
        self.invocations = []
        self.proc_stream = list(config["procs"])
        self.commit_writes = []
        self.consumer_writes = []  # (evseq, time, api, detail)
        self.commit_calls = []
        self.incarnation = 0
        self.consumer = None
        self.shutdown_watch = None
        self.stopped_evseq = None
        self.failures_seq = []
        self.crashes = 0
        self._in_stop = False
        self._creqs = []
        self._cfetches = []
        self._req_index = {}
        self._req_indexed = 0
        self._delay_from = 0
        self._buf_from = 0
        self._mk_consumer()
        w.on_write = self._on_write

    # ------------------------------------------------------------------ cluster content
    def _append(self, spec):
        recs = []
        for i, size in enumerate(spec["sizes"]):
            self.vno += 1
            v = (b"v%d|" % self.vno) + b"x" * size
            if spec.get("nullv") and i == len(spec["sizes"]) - 1 and len(spec["sizes"]) > 1:
                v = None
            recs.append((b"k%d" % (self.vno % 3) if self.vno % 2 else None, v, 1000 + self.vno))
        self.part.append(recs, spec["wrapper"], 1 if spec["wrapper"] else 0, gap=spec["gap"], inner_gaps=spec.get("inner_gaps"))

    def _wrap_client(self):
        """observe the Deferreds of the client calls the consumer makes (public client methods), to know whether
        stop()'s cancellation actually ended them"""
        cli = self.client
        self.ccalls = []
        for name in ("send_fetch_request", "send_offset_request", "send_offset_fetch_request", "send_offset_commit_request"):
            orig = getattr(cli, name)

            def wrapped(*a, _orig=orig, _name=name, **k):
                rec = {"api": _name, "evseq": self.evseq, "done": None, "time": self.world.now, "inc": self.incarnation}
                self.ccalls.append(rec)
                if _name == "send_offset_commit_request":
                    # C03: the value sent is the last processed offset at the moment the commit is issued
                    try:
                        pl = (a[1] if len(a) > 1 else k.get("payloads"))[0]
                        lpo = self.consumer.last_processed_offset
                        if pl.offset != lpo:
                            self.note("C03.commit-value", "C03.commit-not-last-processed", "commit issued for offset %r while last_processed_offset is %r" % (pl.offset, lpo))
                    except (TypeError, IndexError, AttributeError):
                        pass
                d = _orig(*a, **k)

                def done(result, rec=rec):
                    rec["done"] = self.evseq
                    rec["ok"] = not hasattr(result, "getTraceback")  # Failure or value
                    rec["exc"] = None if rec["ok"] else result.value
                    return result

                d.addBoth(done)
                return d

            setattr(cli, name, wrapped)

    def _mk_consumer(self):
        from afkak import Consumer

        self._wrap_client()
        c = self.config
        kw = dict(buffer_size=c["buffer"], max_buffer_size=c["max_buffer"], request_retry_init_delay=c["retry_init"], request_retry_max_delay=c["retry_max"],
                  request_retry_max_attempts=c["max_attempts"], auto_offset_reset=c["reset"])
        if c["group"]:
            kw.update(consumer_group=GROUP, auto_commit_every_n=c["every_n"], auto_commit_every_ms=c["every_ms"])
        self.consumer = Consumer(self.client, TOPIC, 0, self._processor, **kw)
        self.buffer_now = c["buffer"]

    # ------------------------------------------------------------------ processor stub (runs inside afkak: record only)
    def _processor(self, consumer, msgs):
        from twisted.internet import defer

        run = self.runs[-1] if self.runs else None
        inv = Invocation(len(self.invocations), [(m.offset, m.message.key, m.message.value) for m in msgs], self.evseq, self.world.now, run)
        self.invocations.append(inv)
        inv.after_stop = run is None or run.get("stopped_evseq") is not None
        prev = [x for x in self.invocations[:-1] if x.state == "running" and x.run is run]
        if prev:
            inv.overlaps = prev[-1].no
        mode = self.proc_stream.pop(0) if self.proc_stream else "sync_ok"
        inv.mode = mode
        if mode == "sync_raise":
            inv.state = "failed"
            inv.done_evseq = self.evseq
            raise ValueError("processor failure #%d" % inv.no)
        if mode == "sync_raise_cancelled":
            # the application's own code may fail with CancelledError (e.g. a timeout it put on an inner Deferred): still a failure
            inv.state = "failed"
            inv.done_evseq = self.evseq
            self.labels.add("processor-failed-with-CancelledError")
            raise defer.CancelledError("processor failure #%d (the application's own cancellation)" % inv.no)
        if mode in ("async", "async_chained"):
            def cancelled(d):
                inv.state = "cancelled"
                inv.done_evseq = self.evseq

            inv.d = defer.Deferred(cancelled)
            if mode == "async_chained":
                # an already-fired Deferred whose callback chain is paused on pending inner work (succeed(x).addCallback(store)):
                # its result is just as pending as that of a plain unfired Deferred
                self.labels.add("processor-returned-fired-but-paused-deferred")
                inner = inv.d
                return defer.succeed(None).addCallback(lambda _: inner)
            return inv.d
        if mode == "stop_inside" and run is not None and run.get("stopped_evseq") is None and not self._in_stop:
            self._record_stop(run, consumer.stop(), inside=True)
        if mode == "commit_inside" and self.config["group"]:
            d = consumer.commit()
            d.addErrback(lambda f: None)
        inv.state = "ok"
        inv.done_evseq = self.evseq
        return None

    def _record_stop(self, run, ret, inside=False):
        run["stopped_evseq"] = self.evseq
        run["stop_ret"] = ret
        run["stop_time"] = self.world.now
        # did stop() really end the client calls in progress?  (a cancellation swallowed inside the client - e.g. while
        # it is bootstrapping - leaves the call running: root of a family of known findings)
        run["uncancelled"] = [c for c in self.ccalls if c["done"] is None]
        if run["uncancelled"]:
            self.labels.add("stop-could-not-cancel-a-client-call")
        run["lpo_at_stop"] = self.consumer.last_processed_offset
        if inside:
            self.nt.add("stop-inside-processor")

    # ------------------------------------------------------------------ write observer
    def _on_write(self, conn, frame):
        try:
            req = rp.parse_request(frame)
        except rp.GrammarError as e:
            self.note("C04.grammar", "C04.grammar/consumer-end-to-end", "the consumer wrote a request the strict parser rejects: %s" % e)
            return
        api = req["api"]
        if api not in ("fetch", "list_offsets", "offset_commit", "offset_fetch"):
            if api in ("metadata", "find_coordinator"):
                self.consumer_writes.append({"evseq": self.evseq, "time": self.world.now, "api": api, "inc": self.incarnation, "conn": conn})
            return
        run = self.runs[-1] if self.runs else None
        rec = {"evseq": self.evseq, "time": self.world.now, "api": api, "req": req, "conn": conn, "run": run, "corr": req["correlation_id"], "frame": frame,
               "inc": self.incarnation}
        if any(x["frame"] == frame and x["inc"] == self.incarnation for x in self.consumer_writes if "frame" in x):
            rec["resend"] = True  # same frame again after a reconnect
        if run is None or run.get("stopped_evseq") is not None:
            if not rec.get("resend"):
                rec["after_stop"] = True
        if api == "fetch":
            p = req["topics"][0]["partitions"][0]
            rec["offset"], rec["max_bytes"] = p["offset"], p["max_bytes"]
            if run is not None and run["kind"] == "committed" and not rec.get("resend") and not run.get("asked_checked"):
                run["asked_checked"] = True
                if not any(x["run"] is run and x["api"] == "offset_fetch" for x in self._creqs):
                    # C03 (last sentence): the committed position is whatever the coordinator holds now - it has to be asked
                    self.note("C03.resume-exact", "C03.resume-without-asking-the-coordinator", "run #%d was started from the committed position but fetches (offset %d) without having sent an OffsetFetch; the offset store holds %r" % (
                        run["no"], p["offset"], self.cluster.offsets.get((GROUP, TOPIC, 0), (None,))[0]))
        elif api == "list_offsets":
            rec["time_arg"] = req["topics"][0]["partitions"][0]["time"]
        elif api == "offset_commit":
            p = req["topics"][0]["partitions"][0]
            rec["offset"] = p["offset"]
            rec["lpo"] = self.consumer.last_processed_offset
            done = [i for i in self.invocations if i.state == "ok" and i.run is not None]
            rec["last_ok"] = done[-1].msgs[-1][0] if done else None
            rec["ok_lasts"] = [i.msgs[-1][0] for i in done]
            self.commit_writes.append(rec)
        self.consumer_writes.append(rec)
        if not rec.get("resend"):
            if api in ("fetch", "list_offsets", "offset_fetch"):
                self._creqs.append(rec)
            if api == "fetch":
                self._cfetches.append(rec)

    # ------------------------------------------------------------------ generator
    def _macro(self, draw):
        kind = draw(st.sampled_from(self.MACROS))
        b = draw(st.integers(1, self.config["brokers"]))
        start = ["start", draw(st.sampled_from(["earliest", "earliest", "num", "committed", "latest"])), draw(st.integers(0, 30))]
        app = ["append", draw(st.booleans()), draw(st.integers(1, 4)), draw(st.sampled_from([3, 10, 40]))]
        if kind == "steady":
            return [start, ["run", 40], app, ["wait", 2], ["run", 30], app, ["wait", 2], ["run", 30]]
        if kind == "asyncoverlap":
            return [start, ["run", 30], app, ["wait", 2], ["run", 12], app, ["wait", 2], ["run", 12], ["proc", 0, True], ["run", 20], ["proc", 0, True], ["run", 20]]
        if kind == "commitretry":
            return [start, ["run", 40], ["err", b, "offset_commit", draw(st.sampled_from(COMMIT_CODES)), draw(st.integers(1, 3))], app, ["wait", 2], ["run", 20], ["commit"], ["run", 10],
                    ["timer"], ["run", 10], ["timer"], ["run", 10]]
        if kind == "stopmid":
            return [start, ["run", draw(st.integers(5, 40))], app, ["wait", draw(st.integers(0, 2))], ["run", draw(st.integers(0, 12))], ["commit"], ["run", draw(st.integers(0, 3))], ["stop"],
                    ["run", 20], ["start", "committed", 0], ["run", 40]]
        if kind == "shutdownmid":
            return [start, ["run", draw(st.integers(5, 40))], app, ["wait", draw(st.integers(0, 2))], ["run", draw(st.integers(0, 12))],
                    ["err", b, "offset_commit", draw(st.sampled_from(COMMIT_CODES)), draw(st.integers(0, 3))], ["shutdown"], ["run", 6], ["proc", 0, draw(st.booleans())], ["run", 30], ["timer"], ["run", 20]]
        if kind == "shutdownmultiblock":
            # shutdown() while the first block of a reply that holds several blocks is being processed asynchronously
            return [["procmode", "async"], ["procmode", "sync_ok", 1], start, ["run", 40], app, ["shutdown"], ["proc", 0, True], ["run", draw(st.integers(0, 6))], ["proc", 0, True], ["run", 30], ["timer"], ["run", 20]]
        if kind == "failoor":
            # consecutive fetch failures with an out-of-range answer among them (it counts against the attempt limit like any other)
            k = draw(st.integers(0, 3))
            seq = [start, ["run", 40], ["wait", 2], ["run", 20]]
            if k:
                seq += [["err", b, "fetch", draw(st.sampled_from(FETCH_CODES)), k]]
            seq += [app, app, ["truncate", draw(st.integers(1, 6))]]
            for _ in range(k + 2):
                seq += [["wait", draw(st.sampled_from([2, 3, 4]))], ["run", 12]]
            return seq + [["timer"], ["run", 12], ["timer"], ["run", 12]]
        if kind == "oor":
            return [start, ["run", 40], app, app, ["truncate", draw(st.integers(1, 6))], ["wait", 2], ["run", 40]]
        if kind == "bigmsg":
            return [start, ["run", 30], ["append", False, 1, draw(st.sampled_from([400, 5000, 70000] if self.config["buffer"] < 65537 else [70000, 1100000, 2200000, 4200000]))], app, ["wait", 2], ["run", 30], ["wait", 2], ["run", 30]]
        if kind == "failempty":
            # failures, then an EMPTY successful fetch (nothing new in the log), then a failure again: the delay must have been reset
            c1 = draw(st.sampled_from(FETCH_CODES))
            k = draw(st.integers(1, 3))
            seq = [start, ["run", 40], ["wait", 2], ["run", 20], ["err", b, "fetch", c1, k]]
            for _ in range(k + 1):
                seq += [["wait", draw(st.sampled_from([2, 3, 4]))], ["run", 12]]
            seq += [["wait", 2], ["run", 12], ["err", b, "fetch", draw(st.sampled_from(FETCH_CODES)), 1], ["wait", 2], ["run", 12], ["wait", 4], ["run", 12], ["wait", 4], ["run", 12]]
            return seq
        if kind == "outage":
            # the leader refuses connections for longer than the request timeout, then accepts again
            seq = [start, ["run", 40], app, ["wait", 2], ["run", 30], ["refuse", b], ["drop", 0], ["drop", 0], app, ["run", 12]]
            for _ in range(draw(st.integers(2, 6))):
                seq += [["wait", draw(st.sampled_from([4, 5, 5, 6]))], ["run", 12]]
            return seq + [["refuse", b], app, ["run", 20], ["wait", 5], ["run", 20], ["wait", 5], ["run", 30]]
        if kind == "failfetch":
            return [start, ["run", 30], ["err", b, "fetch", draw(st.sampled_from(FETCH_CODES)), draw(st.integers(1, 4))], app, ["wait", 1], ["run", 10], ["timer"], ["run", 10], ["timer"], ["run", 10],
                    ["timer"], ["run", 10], ["timer"], ["run", 20]]
        return [start, ["run", 40], app, ["wait", 2], ["run", draw(st.integers(0, 20))], ["crash"], ["start", "committed", 0], ["run", 40]]

    def draw_step(self, draw):
        w = self.world
        if self.script:
            return self.script.pop(0)
        if draw(st.integers(0, self.MACRO_ONE_IN - 1)) == 0:
            self.script = self._macro(draw)
            return self.script.pop(0)
        running = bool(self.runs) and self.runs[-1].get("stopped_evseq") is None
        ops = []
        if not running:
            ops += ["start", "start", "start"]
        else:
            ops += ["stop", "shutdown", "commit", "commit"]
        if any(i.state == "running" and i.d is not None for i in self.invocations):
            ops += ["proc", "proc", "proc"]
        ops += ["append", "append", "truncate", "crash"]
        if w.pending():
            ops += ["run"] * 8 + ["ev"]
        if w.pending("connect"):
            ops += ["conn"]
        if w.next_timer() is not None:
            ops += ["timer", "timer", "wait"]
        ops += ["err", "err", "hold", "leader", "coord", "refuse", "down", "up"]
        if self.cluster.held:
            ops += ["release", "release"]
        if w.live_conns():
            ops += ["drop"]
        op = draw(st.sampled_from(ops))
        nb = self.config["brokers"]
        if op == "start":
            return ["start", draw(st.sampled_from(["earliest", "latest", "num", "num", "committed", "committed"])), draw(st.integers(0, 40))]
        if op == "proc":
            return ["proc", draw(st.integers(0, 3)), draw(st.sampled_from([True, True, True, True, False, "cancelled"]))]
        if op == "append":
            return ["append", draw(st.booleans()), draw(st.integers(1, 5)), draw(st.sampled_from([0, 3, 10, 40, 120, 700]))]
        if op == "truncate":
            return ["truncate", draw(st.integers(1, 8))]
        if op == "run":
            return ["run", draw(st.integers(1, 15))]
        if op == "ev":
            return ["ev", draw(st.sampled_from(["srv", "dlv", "lost", "connect"])), draw(st.integers(0, 5))]
        if op == "conn":
            return ["conn", draw(st.integers(0, 3)), draw(st.sampled_from(["accept", "refuse"]))]
        if op == "wait":
            return ["wait", draw(st.integers(0, len(WAITS) - 1))]
        if op == "err":
            api = draw(st.sampled_from(["fetch", "fetch", "offset_commit", "offset_commit", "offset_fetch", "list_offsets", "find_coordinator"]))
            codes = {"fetch": FETCH_CODES, "offset_commit": COMMIT_CODES, "offset_fetch": [14, 15, 16, 87], "list_offsets": [3, 5, 6, 7], "find_coordinator": [15]}[api]
            return ["err", draw(st.integers(1, nb)), api, draw(st.sampled_from(codes)), draw(st.integers(1, 4))]
        if op == "hold":
            return ["hold", draw(st.integers(1, nb)), draw(st.sampled_from(["fetch", "offset_commit", "offset_fetch", "list_offsets", "metadata"]))]
        if op == "release":
            return ["release", draw(st.integers(0, 4))]
        if op == "drop":
            return ["drop", draw(st.integers(0, 5))]
        if op in ("down", "up", "refuse", "leader", "coord"):
            return [op, draw(st.integers(1, nb))]
        return [op]

    # ------------------------------------------------------------------ ops
    def _records(self):
        return self.part.records()

    def do(self, step):
        from afkak.common import OFFSET_COMMITTED, OFFSET_EARLIEST, OFFSET_LATEST

        w, cl = self.world, self.cluster
        op = step[0]
        running = bool(self.runs) and self.runs[-1].get("stopped_evseq") is None
        if op == "start":
            if running:
                return
            kind = step[1]
            if kind == "committed" and not self.config["group"]:
                kind = "earliest"
            recs = self._records()
            if kind == "num":
                lo, hi = self.part.log_start, self.part.log_end
                arg = lo + (step[2] % (hi - lo + 1)) if hi >= lo else lo
            else:
                arg = {"earliest": OFFSET_EARLIEST, "latest": OFFSET_LATEST, "committed": OFFSET_COMMITTED}[kind]
            self.evseq += 1
            run = {"no": len(self.runs), "kind": kind, "arg": arg, "evseq": self.evseq, "time": w.now, "pos": arg if kind == "num" else None, "delivered": [],
                   "inc": self.incarnation, "jump_ok": False, "started_fired": False, "seq0": cl._seq}
            self.runs.append(run)
            run["tainted"] = any(c["done"] is None for r0 in self.runs[:-1] if r0["inc"] == self.incarnation for c in r0.get("uncancelled", []))
            try:
                d = self.consumer.start(arg)
            except Exception as e:  # noqa
                run["stopped_evseq"] = self.evseq
                self.note("C13.restartable", "C13.start-raised/%s" % type(e).__name__, "Consumer.start(%r) raised %r (previous run stopped: %r)" % (arg, e, len(self.runs) > 1))
                return
            run["watch"] = simnet.Watch(d, w, "start%d" % run["no"])
            run["watch"].silence()
            if len(self.runs) > 1 and self.runs[-2]["inc"] == self.incarnation:
                self.nt.add("restarted-after-stop")
            self._after_event()
            _ = recs
        elif op == "stop":
            if not running:
                return
            self._stop_state_labels()
            self.evseq += 1
            run = self.runs[-1]
            self._in_stop = True
            try:
                ret = self.consumer.stop()
            except Exception as e:  # noqa
                self._in_stop = False
                run["stopped_evseq"] = self.evseq
                self.note("C13.stop", "C13.stop-raised/%s" % type(e).__name__, "Consumer.stop() raised %r" % e)
                return
            self._in_stop = False
            self._record_stop(run, ret)
            self._after_event()
        elif op == "shutdown":
            if not running or self.runs[-1].get("shutdown_watch") is not None:
                return
            self._stop_state_labels()
            self.evseq += 1
            run = self.runs[-1]
            run["proc_pending_at_shutdown"] = [i for i in self.invocations if i.state == "running" and i.run is run]
            run["shutdown_evseq"] = self.evseq
            try:
                d = self.consumer.shutdown()
            except Exception as e:  # noqa
                self.note("C13.shutdown", "C13.shutdown-raised/%s" % type(e).__name__, "Consumer.shutdown() raised %r" % e)
                return
            run["shutdown_watch"] = simnet.Watch(d, w, "shutdown")
            run["shutdown_watch"].silence()
            self._after_event()
        elif op == "commit":
            if not running:
                return
            self.evseq += 1
            try:
                d = self.consumer.commit()
            except Exception as e:  # noqa
                self.note("C03.commit", "C03.commit-raised/%s" % type(e).__name__, "Consumer.commit() raised %r" % e)
                return
            wt = simnet.Watch(d, w, "commit")
            wt.silence()
            self.commit_calls.append({"evseq": self.evseq, "watch": wt, "run": self.runs[-1]})
            self.labels.add("manual-commit")
            self._after_event()
        elif op == "proc":
            pend = [i for i in self.invocations if i.state == "running" and i.d is not None]
            if not pend:
                return
            inv = pend[step[1] % len(pend)]
            self.evseq += 1
            inv.done_evseq = self.evseq
            if step[2] is True or step[2] == 1:
                inv.state = "ok"
                inv.d.callback(None)
            elif step[2] == "cancelled":
                from twisted.internet import defer

                inv.state = "failed"
                self.labels.add("processor-failed-with-CancelledError")
                inv.d.errback(defer.CancelledError("async processor failure #%d (the application's own cancellation)" % inv.no))
            else:
                inv.state = "failed"
                inv.d.errback(ValueError("async processor failure #%d" % inv.no))
            self._after_event()
        elif op == "procmode":
            # scripted processor behaviour for the next invocation(s) (position step[2], default front)
            self.proc_stream.insert(step[2] if len(step) > 2 else 0, step[1])
        elif op == "append":
            self._append({"wrapper": bool(step[1]), "gap": 0, "sizes": [step[3]] * (step[2] if step[1] else 1), "inner_gaps": None})
            if step[3] > self.config["buffer"]:
                self.labels.add("message-larger-than-buffer")
        elif op == "truncate":
            recs = self._records()
            if len(recs) > 1:
                k = min(step[1], len(recs) - 1)
                self.part.log_start = recs[k]["offset"]
                self.labels.add("log-head-truncated")
        elif op == "crash":
            self._crash()
        elif op == "run":
            for _ in range(step[1]):
                p = w.pending()
                if not p:
                    break
                self._process(p[0])
        elif op == "ev":
            p = w.pending(step[1])
            if p:
                self._process(p[step[2] % len(p)])
        elif op == "conn":
            p = w.pending("connect")
            if p:
                self._process(p[step[1] % len(p)], step[2])
        elif op == "timer":
            self._timer()
        elif op == "wait":
            target = w.now + WAITS[step[1] % len(WAITS)]
            n = 0
            while n < 400:
                nt = w.next_timer()
                if nt is None or nt[0] > target:
                    break
                self._timer()
                n += 1
            w.set_time(target)
        elif op == "err":
            cl.override(step[1], step[2], step[3], step[4])
            self.faults += 1
            self.labels.add("fault:%s-error" % step[2])
        elif op == "hold":
            cl.hold(step[1], step[2], 1)
            self.faults += 1
            self.labels.add("fault:held-reply")
        elif op == "release":
            cl.release(step[1])
        elif op == "drop":
            lc = w.live_conns()
            if lc:
                lc[step[1] % len(lc)].drop()
                self.faults += 1
                self.labels.add("fault:drop")
        elif op == "down":
            if sum(1 for b in cl.brokers.values() if b.up) > 1:
                cl.broker_down(step[1])
                self.faults += 1
                ups = [n for n, b in cl.brokers.items() if b.up]
                self.part.leader = ups[0]
                self.labels.add("fault:broker-down")
        elif op == "up":
            cl.broker_up(step[1])
        elif op == "refuse":
            cl.refusing[step[1]] = not cl.refusing.get(step[1])
            self.faults += 1
        elif op == "leader":
            if cl.brokers[step[1]].up:
                self.part.leader = step[1]
                self.faults += 1
                self.labels.add("fault:leader-move")
        elif op == "coord":
            if cl.brokers[step[1]].up:
                cl.coordinators[GROUP] = step[1]
                self.faults += 1
                self.labels.add("fault:coordinator-move")

    def _stop_state_labels(self):
        """in which state is stop()/shutdown() being called? (C13's non-trivial rule)"""
        c = self.consumer
        if any(i.state == "running" for i in self.invocations):
            self.nt.add("stop-with-processor-pending")
        last_commit = self.commit_writes[-1] if self.commit_writes else None
        if last_commit is not None and not self._reply_of(last_commit):
            self.nt.add("stop-with-commit-in-flight")
        fetches = [x for x in self.consumer_writes if x.get("api") == "fetch" and x["inc"] == self.incarnation]
        if fetches and self._reply_of(fetches[-1]) and any(i.state == "running" for i in self.invocations):
            self.nt.add("stop-with-reply-parked")
        if self.failures_seq and self.failures_seq[-1].get("pending_retry"):
            self.nt.add("stop-while-waiting-to-retry")
        _ = c

    def _crash(self):
        """the process dies: connections vanish without callbacks, timers never fire; a new incarnation is created"""
        w = self.world
        if self.runs and self.runs[-1].get("stopped_evseq") is None:
            self.runs[-1]["stopped_evseq"] = self.evseq
            self.runs[-1]["crashed"] = True
        done = [i for i in self.invocations if i.state == "ok"]
        if done and self.config["group"]:
            stored = self.cluster.offsets.get((GROUP, TOPIC, 0), (-1, b""))[0]
            if done[-1].msgs[-1][0] > stored:
                self.nt.add("crash-between-processing-and-commit")
        for i in self.invocations:
            if i.state == "running":
                i.state = "cancelled"
        for c in w.conns:
            c.dropped = True
            c.lost_delivered = True
            c.s2c = []
            c.frames_in = []
        for a in w.attempt_log:
            a.resolved = True
        w.clocks = []
        from twisted.internet import task

        from afkak import KafkaClient

        clock = task.Clock()
        clock.rightNow = w.now
        w.clock = clock
        w.clocks = [clock]
        self.cluster.parked = []
        self.incarnation += 1
        self.crashes += 1
        b = self.cluster.brokers[1]
        self.client = KafkaClient(hosts=["%s:%d" % (b.host, b.port)], clientId="verif%d" % self.incarnation, timeout=self.config["timeout_ms"], disconnect_on_timeout=self.config["dot"],
                                  reactor=clock, endpoint_factory=w.endpoint_factory, retry_policy=lambda n: min(0.317 * n, 7.3), enable_protocol_version_discovery=self.config["discovery"] != "off")
        self.proc_stream = []
        self._mk_consumer()
        self.labels.add("crash")

    def _timer(self):
        self.evseq += 1
        self.world.fire_next_timer()
        self._after_event()

    def _process(self, ev, action=None):
        self.evseq += 1
        kind = ev.kind
        nconn = len(self.world.conns)
        self.world.process(ev, action)
        for c in self.world.conns[nconn:]:
            c.userdata["open_evseq"] = self.evseq
            c.userdata["inc"] = self.incarnation
        self._after_event()
        if kind == "connect":
            target = self.world.now + CONNECT_LATENCY
            n = 0
            while n < 50:
                nt = self.world.next_timer()
                if nt is None or nt[0] > target:
                    break
                self._timer()
                n += 1
            self.world.set_time(target)

    # ------------------------------------------------------------------ oracles
    def _reply_of(self, rec):
        """reply info delivered for a consumer request (matched by correlation id within the incarnation)"""
        reqs = self.cluster.requests
        while self._req_indexed < len(reqs):
            r = reqs[self._req_indexed]
            self._req_indexed += 1
            self._req_index.setdefault((r["req"]["correlation_id"], r["req"]["api"], r["conn"].userdata.get("inc", self.incarnation)), []).append(r)
        for r in self._req_index.get((rec["corr"], rec["api"], rec["inc"]), ()):
            if r["reply"].get("deliv_evseq") is not None:
                return r["reply"]
        return None

    def _after_event(self):
        w, cl = self.world, self.cluster
        for c in w.conns:
            c.userdata.setdefault("inc", self.incarnation)
        run = self.runs[-1] if self.runs else None
        for info in cl.replies:
            if "deliv_evseq" not in info and cl.delivered(info):
                info["deliv_evseq"] = self.evseq
                info["deliv_time"] = w.now
                if run is not None and info["req_seq"] > run["seq0"] and run.get("stopped_evseq") is None:
                    if info["api"] == "fetch" and info.get("fetch", {}).get((TOPIC, 0), (0,))[0] == 1:
                        # only if the client still waits for it (a reply after the client-side timeout is discarded)
                        recs = [x for x in self._cfetches if x["corr"] == info["corr"] and x["inc"] == self.incarnation]
                        if recs and recs[-1].get("run") is run and w.now < recs[-1]["time"] + self.timeout - 1e-9:
                            self._out_of_range(run, info)
                    elif info["api"] == "list_offsets" and run.get("oor_evseq") is not None and info.get("offsets_answer"):
                        run["reset_pos"] = info["offsets_answer"][0]
        self._check_invocations()
        self._check_commits()
        self._check_stop()
        self._check_retry_delays()
        self._check_oor()
        self._check_buffer()

    # C02 -----------------------------------------------------------------
    def _check_invocations(self):
        for inv in self.invocations:
            if getattr(inv, "_checked", False):
                continue
            inv._checked = True
            run = inv.run
            if getattr(inv, "overlaps", None) is not None:
                self.note("C02.never-concurrent", "C02.processor-reentered", "processor invoked (#%d) while the result of invocation #%d is still pending" % (inv.no, inv.overlaps))
            if run is None:
                continue
            if inv.after_stop:
                kind = "inside-stop" if inv.evseq == run.get("stopped_evseq") else "after-stop-returned"
                if kind == "after-stop-returned":
                    self.note("C13.nothing-after-stop", "C13.processor-after-stop", "processor invoked (#%d, offsets %r) after stop() had returned" % (inv.no, [m[0] for m in inv.msgs][:5]))
                else:
                    self.labels.add("processor-entered-during-stop")
            for (off, key, value) in inv.msgs:
                self._deliver(run, off, key, value, inv)

    def _resolve_start(self, run):
        """position the run starts from, as far as ground truth allows; None = not (yet) known.
        Only answers that reached the client before its deadline for that request count (a later one is discarded by the client)."""
        if run["pos"] is not None:
            return run["pos"]
        if run.get("pos_unresolvable"):
            return None
        kind = run["kind"]

        def timely_answers(api):
            for rec in self._creqs:
                if rec["run"] is not run or rec["api"] != api:
                    continue
                rep = self._reply_of(rec)
                if rep is None:
                    continue
                dl = rec["time"] + self.timeout
                if abs(rep["deliv_time"] - dl) < 1e-6:
                    yield rec, rep, None  # delivered at the deadline instant: which of the two won is a scheduling detail
                elif rep["deliv_time"] < dl:
                    yield rec, rep, True

        if kind in ("earliest", "latest"):
            want = -2 if kind == "earliest" else -1
            for rec, rep, ok in timely_answers("list_offsets"):
                if rec["time_arg"] == want and rep.get("offsets_answer"):
                    if ok is None:
                        run["pos_unresolvable"] = True
                        return None
                    run["pos"] = rep["offsets_answer"][0]
                    break
        else:
            if run.get("fallback") is None and run.get("committed_before") is None:
                for rec, rep, ok in timely_answers("offset_fetch"):
                    if rep.get("offsets", {}).get((TOPIC, 0), (1, 0))[0] == 0:
                        if ok is None:
                            run["pos_unresolvable"] = True
                            return None
                        off = rep["offsets"][(TOPIC, 0)][1]
                        if off >= 0:
                            run["pos"] = off + 1
                            run["committed_before"] = off
                        else:
                            run["fallback"] = -1 if self.config["reset"] == -1 else -2
                            run["kind2"] = "latest" if run["fallback"] == -1 else "earliest"
                        break
            if run["pos"] is None and run.get("fallback") is not None:
                for rec, rep, ok in timely_answers("list_offsets"):
                    if rec["time_arg"] == run["fallback"] and rep.get("offsets_answer"):
                        if ok is None:
                            run["pos_unresolvable"] = True
                            return None
                        run["pos"] = rep["offsets_answer"][0]
                        break
        return run["pos"]

    def _deliver(self, run, off, key, value, inv):
        """one delivered message against the log (ground truth)"""
        pos = self._resolve_start(run)
        if pos is not None and run.get("start_pos") is None:
            run["start_pos"] = pos
        recs = self._records()
        if run["delivered"] and off <= run["delivered"][-1]:
            self.note("C02.in-order-once", "C02.offset-not-increasing", "run #%d delivered offset %d after %d" % (run["no"], off, run["delivered"][-1]))
            run["delivered"].append(off)
            return
        if pos is None:
            run["delivered"].append(off)
            self.labels.add("start-position-unresolved")
            return
        buffered = False
        if run.get("oor_evseq") is not None and run.get("reset_pos") is not None and run.get("oor_fetch_offset") is not None and off < run["oor_fetch_offset"]:
            # messages of a reply fetched BEFORE the out-of-range answer may still be waiting to be fed to the processor block by block:
            # they continue the old stream in order; the reset applies to what is fetched afterwards
            old = [o for o in sorted(r["offset"] for b in self.part.batches for r in b.records) if o >= pos]
            buffered = bool(old) and old[0] == off
            if buffered:
                self.labels.add("buffered-messages-delivered-after-out-of-range-answer")
        if run.get("oor_evseq") is not None and run.get("reset_pos") is not None and not buffered:
            # an out-of-range answer followed by the configured reset: the stream continues at the offset the broker gave
            pos = run["reset_pos"]
            run["oor_evseq"] = None
            run["reset_pos"] = None
            self.nt.add("offset-reset-policy-fired")
        # reference = every record ever appended (a reply generated before a head truncation may still carry records
        # that have since been removed; skipping them is only allowed through the out-of-range reset handled above)
        allrec = dict((r["offset"], r) for b in self.part.batches for r in b.records)
        nxt = [allrec[o] for o in sorted(allrec) if o >= pos]
        first_after_commit = not run["delivered"] and run.get("committed_before") is not None and pos == run["committed_before"] + 1
        run["delivered"].append(off)
        if first_after_commit:
            # C03 (last sentence): a consumer started from the committed position resumes at exactly the first message after it
            self.nt.add("resumed-from-committed-offset")
            want = nxt[0]["offset"] if nxt else None
            if want != off:
                self.note("C03.resume-exact", "C03.resume-%s" % ("redelivers-committed" if off <= run["committed_before"] else "skips" if want is not None and off > want else "phantom"),
                          "run #%d started from the committed position: the offset store holds %d, the first message delivered is %d, the first log record after the committed one is %r" % (run["no"], run["committed_before"], off, want))
        if not nxt or nxt[0]["offset"] != off:
            want = nxt[0]["offset"] if nxt else None
            kind = "repeat-or-old" if off < pos else "skipped" if want is not None and off > want else "phantom"
            if kind == "skipped" and want is not None and want < self.part.log_start:
                kind = "skipped"
            if run.get("tainted"):
                kind += "/restart-after-uncancelled-request"
            self.note("C02.every-message-once", "C02.stream-deviates/%s" % kind,
                      "run #%d (start %s) delivered offset %d but the next log record at or after position %d is %r" % (run["no"], run["kind"], off, pos, want))
            run["pos"] = off + 1
            return
        r = allrec.get(off)
        if r is not None and (r["key"] != key or r["value"] != value):
            self.note("C02.same-content", "C02.content-differs", "offset %d delivered as (%.40r, %.40r), the log stores (%.40r, %.40r)" % (off, key, value, r["key"], r["value"]))
        run["pos"] = off + 1
        if len(run["delivered"]) >= 2:
            run["multi"] = True

    def _out_of_range(self, run, info):
        """an out-of-range fetch answer has just been delivered to the running consumer"""
        from afkak.common import OffsetOutOfRangeError

        policy = self.config["reset"]
        self.labels.add("out-of-range-answer")
        if run["watch"].state != "pending":
            return
        run["oor_evseq"] = self.evseq
        run["oor_policy_checked"] = False
        run["oor_fetch_offset"] = info.get("fetch", {}).get((TOPIC, 0), (0, None))[1]

    def _check_oor(self):
        from afkak.common import OffsetOutOfRangeError

        policy = self.config["reset"]
        for run in self.runs:
            if run.get("oor_evseq") is None or run.get("oor_policy_checked") or run.get("stopped_evseq") is not None:
                continue
            wt = run["watch"]
            if policy is None:
                run["oor_policy_checked"] = True
                self.nt.add("offset-reset-policy-fired")
                if wt.state != "err" or not wt.value.check(OffsetOutOfRangeError):
                    self.note("C14.reset-policy", "C14.out-of-range-not-reported", "out-of-range answer with no reset policy: the start() Deferred is %s %.80r, expected a failure with OffsetOutOfRangeError" % (wt.state, wt.value))
                run["ended_by_error_evseq"] = self.evseq
                continue
            nxt = [x for x in self.consumer_writes if x["evseq"] > run["oor_evseq"] and x.get("api") in ("fetch", "list_offsets", "offset_fetch") and x["inc"] == run["inc"] and x.get("run") is run and not x.get("resend")]
            if not nxt:
                continue
            run["oor_policy_checked"] = True
            if nxt[0]["api"] != "list_offsets" or nxt[0]["time_arg"] != policy:
                self.note("C14.reset-policy", "C14.reset-policy-not-followed", "out-of-range answer with reset policy %r: the next request was %s %r" % (policy, nxt[0]["api"], nxt[0].get("time_arg", nxt[0].get("offset"))))

    def _check_buffer(self):
        """(4) a message larger than the fetch buffer: same offset again with the buffer grown 16x up to 1 MiB, then 2x, capped"""
        from afkak.common import ConsumerFetchSizeTooSmall

        fetches = self._cfetches
        while self._buf_from < len(fetches) and fetches[self._buf_from].get("_buf_checked"):
            self._buf_from += 1
        for idx in range(self._buf_from, len(fetches)):
            rec = fetches[idx]
            if rec.get("_buf_checked"):
                continue
            rep = self._reply_of(rec)
            if rep is None:
                continue
            d = rep.get("fetch", {}).get((TOPIC, 0))
            if d is None or d[0] != 0:
                rec["_buf_checked"] = True
                continue
            too_small = d[3] > 0 and d[4] > d[3]
            if not too_small:
                rec["_buf_checked"] = True
                continue
            if rep["deliv_time"] > rec["time"] + self.timeout - 1e-9:
                rec["_buf_checked"] = True
                continue
            run = rec["run"]
            if run is None or run.get("stopped_evseq") is not None or rec["inc"] != self.incarnation:
                rec["_buf_checked"] = True
                continue
            b = rec["max_bytes"]
            mx = self.config["max_buffer"]
            self.labels.add("fetch-size-too-small")
            if mx is not None and b >= mx:
                # at the maximum: the run must end with ConsumerFetchSizeTooSmall (handling of the answer may be parked
                # behind a running processor, so the verdict waits until the run ends or the consumer moves on)
                wt = run["watch"]
                self.nt.add("buffer-at-maximum")
                if wt.state != "pending":
                    rec["_buf_checked"] = True
                    if wt.state == "err" and wt.value.check(ConsumerFetchSizeTooSmall):
                        self.nt.add("buffer-at-maximum-reported")
                    continue
                later = [x for x in fetches[idx + 1:] if x["run"] is run]
                if later:
                    rec["_buf_checked"] = True
                    self.note("C14.buffer-growth", "C14.buffer-max-not-reported", "message at offset %d needs more than max_buffer_size=%d but the start() Deferred did not fail: the consumer went on to fetch offset %d with %d bytes" % (rec["offset"], mx, later[0]["offset"], later[0]["max_bytes"]))
                continue
            later = [x for x in fetches[idx + 1:] if x["run"] is run]
            if not later:
                if run["watch"].state == "err" and run["watch"].value.check(ConsumerFetchSizeTooSmall):
                    rec["_buf_checked"] = True
                    if mx is None or d[4] <= mx:
                        self.note("C02.completeness", "C02.gave-up-on-a-message-that-fits-the-buffer-maximum", "the message at offset %d (%d bytes) did not fit the %d-byte fetch buffer; it fits max_buffer_size=%r, yet the consumer failed with ConsumerFetchSizeTooSmall and it was never delivered" % (rec["offset"], d[4], b, mx))
                    self.note("C12.enlarges-not-skips", "C12.consumer-gave-up-instead-of-enlarging", "a message did not fit the %d-byte fetch buffer, the maximum %r was not reached, yet the consumer failed with ConsumerFetchSizeTooSmall instead of enlarging its buffer" % (b, mx))
                    self.note("C14.buffer-growth", "C14.buffer-gave-up-early", "fetch buffer %d too small, maximum %r not reached, yet the start() Deferred failed with ConsumerFetchSizeTooSmall" % (b, mx))
                continue
            rec["_buf_checked"] = True
            nxt = later[0]
            want = b * (16 if b <= 2 ** 20 else 2)
            if mx is not None:
                want = min(want, mx)
            self.nt.add("buffer-growth")
            if b <= 2 ** 20 < want:
                self.nt.add("buffer-growth-across-1MiB")
            if nxt["offset"] != rec["offset"]:
                self.note("C12.enlarges-not-skips", "C12.consumer-skipped-oversized-message", "message at offset %d did not fit %d bytes; the next fetch asks for offset %d instead of the same offset with a larger buffer" % (rec["offset"], b, nxt["offset"]))
                self.note("C14.buffer-growth", "C14.skipped-oversized-message", "message at offset %d did not fit %d bytes; the next fetch asks for offset %d" % (rec["offset"], b, nxt["offset"]))
            elif nxt["max_bytes"] <= b:
                self.note("C12.enlarges-not-skips", "C12.consumer-did-not-enlarge", "message at offset %d did not fit %d bytes; the next fetch asks for %d bytes" % (rec["offset"], b, nxt["max_bytes"]))
                self.note("C14.buffer-growth", "C14.buffer-growth-rule", "buffer %d too small: next fetch asks for %d bytes, the rule (x16 up to 1 MiB, then x2, capped at %r) gives %d" % (b, nxt["max_bytes"], mx, want))
            elif nxt["max_bytes"] != want:
                self.note("C14.buffer-growth", "C14.buffer-growth-rule", "buffer %d too small: next fetch asks for %d bytes, the rule (x16 up to 1 MiB, then x2, capped at %r) gives %d" % (b, nxt["max_bytes"], mx, want))

    # C03 -----------------------------------------------------------------
    def _check_commits(self):
        c = self.consumer
        for rec in self.commit_writes:
            if rec.get("_checked"):
                continue
            rec["_checked"] = True
            if rec.get("resend"):
                continue
            o = rec["offset"]
            if o not in rec["ok_lasts"]:
                delivered = [m[0] for i in self.invocations for m in i.msgs]
                kind = "beyond-processed" if (rec["last_ok"] is None or o > rec["last_ok"]) else "not-an-invocation-boundary"
                pend = [i.no for i in self.invocations if i.state in ("running", "failed") and any(m[0] <= o for m in i.msgs)]
                self.note("C03.commit-not-ahead", "C03.commit-ahead/%s" % kind,
                          "OffsetCommit carries offset %d; successfully completed invocations end at %r (delivered so far %r; unfinished/failed invocations covering it: %r)" % (o, rec["ok_lasts"][-4:], delivered[-6:], pend))
            else:
                # every delivered message at or below the committed offset belongs to a successfully completed invocation
                okset = set(m[0] for i in self.invocations if i.state == "ok" and i.evseq <= rec["evseq"] for m in i.msgs)
                # (offsets the application itself chose to skip by starting an earlier run beyond them are its own business)
                waived = max([r0["start_pos"] for r0 in self.runs if r0.get("start_pos") is not None and r0 is not rec["run"]] + [-1])
                bad = [i for i in self.invocations if i.run is rec["run"] and i.state in ("failed", "running", "cancelled") and i.evseq <= rec["evseq"]
                       and any(m[0] <= o and m[0] not in okset and m[0] >= waived for m in i.msgs)]
                if bad:
                    self.nt.add("commit-after-processor-failure")
                    self.note("C03.commit-not-ahead", "C03.commit-ahead/past-%s-invocation" % bad[0].state,
                              "OffsetCommit carries offset %d although invocation #%d (offsets %r) %s" % (o, bad[0].no, [m[0] for m in bad[0].msgs][:4], "failed" if bad[0].state == "failed" else "has not completed successfully"))
            # ... and the committed number is the offset the broker stores for the last message processed (messages are told apart by
            # their unique values): committing a larger number skips what the log holds in between after a restart
            last = [i for i in self.invocations if i.state == "ok" and i.evseq <= rec["evseq"] and i.msgs and i.msgs[-1][0] == o]
            if last and last[-1].msgs[-1][2] is not None:
                truth = [r["offset"] for b in self.part.batches for r in b.records if r["value"] == last[-1].msgs[-1][2]]
                if truth and o > truth[0]:
                    self.note("C03.commit-not-ahead", "C03.commit-ahead/of-the-stored-offset", "OffsetCommit carries offset %d for the message %.24r, which the broker stores at offset %d" % (o, last[-1].msgs[-1][2], truth[0]))
            # generation / member of a plain consumer
            req = rec["req"]
            if (req["generation"], req["member_id"]) != (-1, ""):
                self.note("C03.commit-value", "C03.commit-identity", "plain consumer commit carries generation %r member %r" % (req["generation"], req["member_id"]))
            # (2) at most one commit outstanding per run
            prev = [x for x in self.commit_writes if x is not rec and not x.get("resend") and x["evseq"] < rec["evseq"] and x["run"] is rec["run"] and x["inc"] == rec["inc"]]
            if prev:
                p = prev[-1]
                rp_ = self._reply_of(p)
                answered = rp_ is not None and rp_["deliv_evseq"] <= rec["evseq"]
                timed_out = rec["time"] >= p["time"] + self.timeout - 1e-9
                if not answered and not timed_out:
                    self.note("C03.one-commit-outstanding", "C03.second-commit-in-flight", "OffsetCommit (offset %d) written at t=%.3f while the previous one (offset %d, t=%.3f) is unanswered" % (o, rec["time"], p["offset"], p["time"]))
                if p["offset"] != o:
                    self.nt.add("several-commits")
        # (3) last_committed_offset only ever holds what the broker acknowledged or reported
        lco = c.last_committed_offset
        if lco is not None and lco != getattr(self, "_lco_ok", None):
            acked = set()
            for e in self.cluster.commit_log:
                if e["group"] == GROUP and e["code"] == 0 and e["reply"].get("deliv_evseq") is not None:
                    acked.add(e["offset"])
            for r in self.cluster.requests:
                if r["req"]["api"] == "offset_fetch" and r["reply"].get("deliv_evseq") is not None:
                    for v in r["reply"].get("offsets", {}).values():
                        if v[0] == 0:
                            acked.add(v[1])
            if lco in acked:
                self._lco_ok = lco
            else:
                self.note("C03.committed-is-acknowledged", "C03.last-committed-not-acknowledged", "last_committed_offset is %r; offsets the coordinator acknowledged or reported to this client: %r" % (lco, sorted(acked)[-6:]))

    def _coordinator_was_known(self, rec):
        return True

    # C13 -----------------------------------------------------------------
    def _check_stop(self):
        for run in self.runs:
            wt = run.get("watch")
            if wt is None:
                continue
            if wt.extra_attempts and not run.get("_twice"):
                run["_twice"] = True
                if wt.state == "err" and all(a[1] == "errback" for a in wt.extra_attempts) and (run.get("stopped_evseq") is None or all(a[0] < run.get("stop_step", 10 ** 9) for a in wt.extra_attempts)):
                    # the consumer had already reported an unrecoverable failure and was left running by the application;
                    # a further failure has nowhere to go.  The Deferred has still fired exactly once: counted, not flagged
                    self.labels.add("second-failure-after-reported-failure")
                else:
                    self.note("C13.start-fires-once", "C13.start-deferred-fired-twice", "start() Deferred of run #%d fired again: %r" % (run["no"], wt.extra_attempts[:2]))
            if wt.state != "pending" and not run.get("_fired_checked"):
                run["_fired_checked"] = True
                run["fired_evseq"] = self.evseq
                self._start_fired(run)
            if run.get("stopped_evseq") is not None and not run.get("crashed") and wt.state == "pending" and self.evseq > run["stopped_evseq"] and not run.get("_unfired"):
                run["_unfired"] = True
                self.note("C13.start-fires-once", "C13.start-deferred-not-fired-by-stop", "stop() returned but the start() Deferred of run #%d has not fired" % run["no"])
            sw = run.get("shutdown_watch")
            if sw is not None:
                if sw.extra_attempts and not run.get("_sd_twice"):
                    run["_sd_twice"] = True
                    self.note("C13.shutdown-fires-once", "C13.shutdown-deferred-fired-twice", "shutdown() Deferred fired again: %r" % sw.extra_attempts[:2])
                if sw.state != "pending" and not run.get("_sd_checked"):
                    run["_sd_checked"] = True
                    self._shutdown_fired(run)
        # nothing is written for a stopped run
        for rec in self.consumer_writes[-30:]:
            if rec.get("after_stop") and not rec.get("_flagged") and rec.get("api") in ("fetch", "list_offsets", "offset_commit", "offset_fetch"):
                rec["_flagged"] = True
                if rec["inc"] == self.incarnation:
                    stale = any(r0.get("uncancelled") for r0 in self.runs if r0["inc"] == self.incarnation)
                    self.note("C13.nothing-after-stop", "C13.request-after-stop/%s%s" % (rec["api"], "/uncancelled-client-call" if stale else ""),
                              "%s request written although the consumer is stopped%s" % (rec["api"], " (stop() could not cancel the client call in progress)" if stale else ""))

    def _start_fired(self, run):
        wt = run["watch"]
        stopped = run.get("stopped_evseq") is not None and run["stopped_evseq"] <= self.evseq
        shut = run.get("shutdown_watch") is not None
        if wt.state == "ok":
            if not stopped and not shut:
                self.note("C13.start-result", "C13.start-deferred-fired-while-running", "start() Deferred of run #%d fired with %r although neither stop() nor shutdown() was called" % (run["no"], wt.value))
            elif stopped and "stop_ret" in run and wt.value != run["stop_ret"]:
                self.note("C13.start-result", "C13.start-value-differs-from-stop", "start() Deferred fired with %r, stop() returned %r" % (wt.value, run["stop_ret"]))
        else:
            from twisted.internet.defer import CancelledError as TC

            from afkak.common import CancelledError as AC

            self.labels.add("start-failed:%s" % wt.value.type.__name__)
            run["failed"] = True
            # a failure caused by nothing but stop()'s own cancellations is not an unrecoverable error
            if (stopped and run["stopped_evseq"] == self.evseq) and not run.get("had_failed_before_stop"):
                kind = "cancelled-error" if wt.value.check(TC, AC) else wt.value.type.__name__
                self.note("C13.start-result", "C13.start-failed-by-stop/%s" % kind, "stop() made the start() Deferred of run #%d fail with %s instead of firing with the last processed offset" % (run["no"], wt.value.type.__name__))

    def _shutdown_fired(self, run):
        sw = run["shutdown_watch"]
        pend = [i for i in run.get("proc_pending_at_shutdown", []) if i.state == "running"]
        if pend:
            self.note("C13.shutdown-waits", "C13.shutdown-fired-before-processor", "shutdown() Deferred fired while processor invocation #%d is still pending" % pend[0].no)
        c = self.consumer
        if sw.state == "ok" and self.config["group"]:
            if c.last_committed_offset != c.last_processed_offset and c.last_processed_offset is not None:
                self.note("C13.shutdown-commits", "C13.shutdown-success-without-commit", "shutdown() succeeded with last_processed_offset=%r but last_committed_offset=%r" % (c.last_processed_offset, c.last_committed_offset))
            elif c.last_processed_offset is not None:
                stored = self.cluster.offsets.get((GROUP, TOPIC, 0), (None, None))[0]
                # a commit the consumer abandoned (stop() cancelled it, or it timed out) may still have been applied by the
                # coordinator: its outcome is unknown to the consumer, and a value it left in the store is not shutdown()'s doing
                unknown = set()
                for e in self.cluster.commit_log:
                    if e["code"] != 0 or e["group"] != GROUP:
                        continue
                    recs = [x for x in self.commit_writes if x["corr"] == e["reply"].get("corr") and x["conn"] is e["conn"]]
                    rep = e["reply"]
                    got = False
                    for x in recs:
                        r0 = x["run"]
                        if rep.get("deliv_evseq") is not None and rep["deliv_time"] < x["time"] + self.timeout - 1e-9 and (r0 is None or r0.get("stopped_evseq") is None or rep["deliv_evseq"] < r0["stopped_evseq"] or r0 is run):
                            got = True
                    if not got:
                        unknown.add(e["offset"])
                if stored != c.last_processed_offset and stored in unknown:
                    self.labels.add("store-holds-a-commit-of-unknown-fate")
                elif stored != c.last_processed_offset:
                    self.note("C13.shutdown-commits", "C13.shutdown-store-disagrees", "shutdown() succeeded with last_processed_offset=%r; the coordinator stores %r" % (c.last_processed_offset, stored))
        if run.get("stopped_evseq") is None:
            # shutdown stops the consumer
            run["stopped_evseq"] = self.evseq
            run["stop_ret"] = c.last_processed_offset

    # C14 -----------------------------------------------------------------
    def _check_retry_delays(self):
        """k-th consecutive failed fetch/offset request is followed by the consumer's next write exactly
        min(init * r**(k-1), max) later (warm routing); a success resets k."""
        from afkak import consumer as cmod

        factor = getattr(cmod, "REQUEST_RETRY_FACTOR", None)
        if factor is None:
            return
        cfg = self.config
        reqs = self._creqs
        while self._delay_from < len(reqs) and reqs[self._delay_from].get("_delay_checked"):
            self._delay_from += 1
        for idx in range(self._delay_from, len(reqs)):
            rec = reqs[idx]
            if rec.get("_delay_checked") or rec["inc"] != self.incarnation:
                continue
            rep = self._reply_of(rec)
            if rep is None:
                continue
            # outcome of this request as the client saw it
            code = None
            if rec["api"] == "fetch":
                code = rep.get("fetch", {}).get((TOPIC, 0), (None,))[0]
            elif rec["api"] == "offset_fetch":
                code = rep.get("offsets", {}).get((TOPIC, 0), (None,))[0]
            elif rec["api"] == "list_offsets":
                code = rep.get("offsets_code")
            if code is None or rep["deliv_time"] > rec["time"] + self.timeout - 1e-9:
                # no itemised answer, or the reply came after the client-side timeout (discarded by the client: the
                # request failed by timeout, which the chain logic below treats as "fate unknown")
                rec["_delay_checked"] = True
                continue
            rec["outcome"] = code
            # the consumer's next write on the fetch path (a coordinator lookup belongs to it only after a failed
            # OffsetFetch, and only when no commit is in progress that could have caused the lookup)
            apis = ("fetch", "list_offsets", "offset_fetch", "metadata")
            if rec["api"] == "offset_fetch" and not any(c["api"] == "send_offset_commit_request" and (c["done"] is None or c["done"] > rep["deliv_evseq"]) for c in self.ccalls):
                apis += ("find_coordinator",)
            elif rec["api"] == "offset_fetch":
                rec["_delay_checked"] = True
                continue
            # "the next request" is the consumer's next call of the client's fetch-path API (observed on the wrapped public methods): the
            # instant it is issued does not depend on whether the connection it needs happens to be up, unlike the instant it is written
            later = [x for x in self.ccalls[-40:] if x["evseq"] > rep["deliv_evseq"] and x.get("inc") == self.incarnation
                     and x["api"] in ("send_fetch_request", "send_offset_request", "send_offset_fetch_request")]
            if code == 0:
                rec["_delay_checked"] = True
                rec["k"] = 0
                continue
            if not later:
                continue
            rec["_delay_checked"] = True
            # consecutive failures before this one within the run
            k = 1
            j = idx - 1
            while j >= 0 and reqs[j].get("outcome") not in (None, 0) and reqs[j]["run"] is rec["run"] and reqs[j].get("timely", True):
                k += 1
                j -= 1
            if j < 0 or reqs[j]["run"] is not rec["run"] or reqs[j].get("outcome") != 0:
                # the chain of failures must start right after a request known to have succeeded in this run; otherwise
                # failures the harness cannot see (a timed-out metadata load, a dropped reply) may have preceded it
                continue
            # ... and must be gap-free: each request of the chain was written right after its predecessor's outcome (plus
            # the retry delay already verified), so nothing invisible (timeouts of requests never written) lies between
            chain = reqs[j:idx + 1]
            gapless = True
            for a, b2 in zip(chain, chain[1:]):
                ra = self._reply_of(a)
                if ra is None:
                    gapless = False
                    break
                allowed = 0.3 if a.get("outcome") == 0 else min(cfg["retry_init"] * (factor ** 12), cfg["retry_max"]) + 0.3
                if b2["time"] - ra["deliv_time"] > allowed:
                    gapless = False
                    break
            if not gapless:
                continue
            run = rec["run"]
            if run is None or run.get("stopped_evseq") is not None or run.get("shutdown_watch") is not None or (run.get("watch") is not None and run["watch"].state != "pending"):
                continue
            if rep["deliv_time"] > rec["time"] + self.timeout - 1e-9:
                rec["timely"] = False
                continue
            # (an out-of-range answer is a failed attempt like any other as far as the limit goes; only what follows it differs)
            if cfg["max_attempts"] and k >= cfg["max_attempts"]:
                # (reaching this point means: the run is still going and the consumer has issued its next request)
                self.nt.add("attempt-limit-reached")
                self.note("C14.attempt-limit", "C14.attempt-limit-exceeded", "%d consecutive failed requests (the last: %s error %d) with request_retry_max_attempts=%d, yet the start() Deferred is still pending and the consumer issued another request" % (k, rec["api"], code, cfg["max_attempts"]))
            if code == 1 and rec["api"] == "fetch":
                continue  # out of range: what follows is governed by the reset policy
            want = min(cfg["retry_init"] * (factor ** (k - 1)), cfg["retry_max"])
            d = later[0]["time"] - rep["deliv_time"]
            self.nt.add("retry-delay-measured")
            if k >= 2:
                self.nt.add("consecutive-failures")
            if want >= cfg["retry_max"] - 1e-12 and k > 1:
                self.nt.add("retry-delay-capped")
            if abs(d - want) > 1e-6 * max(want, 1) + 1e-9:
                kind = "too-early" if d < want else "too-late"
                self.note("C14.backoff", "C14.retry-delay/%s" % kind, "after consecutive failure #%d (%s error %d delivered t=%.4f) the next request was issued %.6fs later; expected min(%.3f*%.5f^%d, %.3f)=%.6f" % (
                    k, rec["api"], code, rep["deliv_time"], d, cfg["retry_init"], factor, k - 1, cfg["retry_max"], want))

        self._check_gave_up_within_budget()

    def _check_gave_up_within_budget(self):
        """with an attempt limit N >= 2 the run may fail on a retriable error only after N consecutive failed attempts: a failure that
        follows a request known to have succeeded by fewer than N failed ones means the budget was not reset by that success (C02: the
        stream then simply ends although nothing unrecoverable happened; C08: 'resume ... within the retry budget')"""
        from afkak.common import BrokerResponseError

        N = self.config["max_attempts"]
        run = self.runs[-1] if self.runs else None
        if not N or N < 3 or run is None or run.get("_budget_checked") or run.get("watch") is None or run["watch"].state == "pending":
            return
        run["_budget_checked"] = True
        if run["watch"].state != "err" or run.get("stopped_evseq") is not None or run.get("shutdown_watch") is not None:
            return
        if any(i.run is run and i.state == "failed" for i in self.invocations):
            return
        f = run["watch"].value
        if not f.check(BrokerResponseError) or getattr(f.value, "errno", None) in (None, 0, 1):
            return
        # the consumer's attempts are its calls of the client's fetch-path methods (observed on the wrapped public methods), whether or not
        # a request was written for them: an attempt that fails while routing is being resolved counts like any other
        mine = [x for x in self.ccalls if x.get("inc") == self.incarnation and x["evseq"] >= run["evseq"]
                and x["api"] in ("send_fetch_request", "send_offset_request", "send_offset_fetch_request")]
        k = 0
        for x in reversed(mine):
            if x.get("done") is None:
                return  # still in progress: no verdict
            if x.get("ok"):
                break
            k += 1
        else:
            return  # no attempt of this run known to have succeeded before the chain
        if k == 0 or mine[-1].get("exc") is not f.value:
            return  # the run did not end with the failure of its last fetch-path attempt (e.g. a commit the coordinator rejected for good)
        # (afkak counts the successful request that precedes the failures as the first attempt of the new series: after a success the
        # unchanged tree gives up at the (N-1)th consecutive failure, which C14's "no more than N" allows; fewer than that is a budget
        # that was not reset)
        if k < N - 1:
            self.nt.add("gave-up-within-budget")
            detail = "run #%d failed with %s after %d consecutive failed request(s) that followed a successful one; request_retry_max_attempts=%d" % (run["no"], f.type.__name__, k, N)
            self.note("C02.completeness", "C02.gave-up-within-the-retry-budget", detail)
            self.note("C08.recovery", "C08.consumer-gave-up-within-the-retry-budget", detail)

    # ------------------------------------------------------------------ finish
    def _caught_up(self):
        """running consumer has delivered everything in the log and has since seen an empty fetch reply"""
        run = self.runs[-1] if self.runs else None
        if run is None or run.get("stopped_evseq") is not None or run["pos"] is None or run["watch"].state != "pending":
            return False
        if any(r["offset"] >= run["pos"] for r in self._records()):
            return False
        f = self._cfetches[-1] if self._cfetches else None
        return f is not None and f["offset"] >= self.part.log_end and f["evseq"] > getattr(self, "_quiet_start_evseq", 0) and not any(i.state == "running" for i in self.invocations)

    def _quiet(self, horizon_s, until_caught_up=False):
        w, cl = self.world, self.cluster
        self._quiet_start_evseq = self.evseq
        for node, b in cl.brokers.items():
            if not b.up:
                cl.broker_up(node)
        cl.refusing.clear()
        cl.overrides = []
        cl.holds = []
        if self.part.leader not in cl.brokers or self.part.leader == -1:
            self.part.leader = sorted(cl.brokers)[0]
        while cl.held:
            cl.release(0)
        horizon = w.now + horizon_s
        n = 0
        while n < 6000:
            if until_caught_up and n % 8 == 0 and self._caught_up():
                return "caught-up"
            p = w.pending()
            if p:
                self._process(p[0])
            else:
                pend = [i for i in self.invocations if i.state == "running" and i.d is not None]
                if pend:
                    self.evseq += 1
                    pend[0].state = "ok"
                    pend[0].done_evseq = self.evseq
                    pend[0].d.callback(None)
                    self._after_event()
                else:
                    nt = w.next_timer()
                    if nt is None:
                        return "quiescent"
                    if nt[0] > horizon:
                        return "horizon"
                    self._timer()
            n += 1
            self.raise_noted()
        return "cap"

    def finish(self):
        w, cl = self.world, self.cluster
        self.proc_stream = []
        running = bool(self.runs) and self.runs[-1].get("stopped_evseq") is None
        run = self.runs[-1] if self.runs else None
        res = self._quiet(20.0 + 4 * self.timeout + min(self.config["retry_max"], 30.0), until_caught_up=True)
        # C02 (4) / C08 recovery: bounded completeness once faults have ceased and the processor succeeds
        if running and run is not None and run.get("stopped_evseq") is None and run["watch"].state == "pending" and run.get("shutdown_watch") is None:
            pos = self._resolve_start(run)
            if pos is not None and res in ("horizon", "quiescent", "caught-up"):
                rest = [r["offset"] for r in self._records() if r["offset"] >= (run["pos"] if run["pos"] is not None else pos)]
                bad = [i for i in self.invocations if i.run is run and i.state == "failed"]
                if rest and not bad and not run.get("oor_evseq") and self.config["max_buffer"] is None:
                    prev = self.runs[-2] if len(self.runs) > 1 else None
                    if prev is not None and prev["inc"] == run["inc"] and not run["delivered"]:
                        # C13: "a stopped consumer can be started again" - and then consumes
                        self.note("C13.restartable", "C13.restarted-consumer-does-not-consume", "run #%d is a restart of the consumer stopped in run #%d (%s); faults ceased %.0f virtual seconds ago, the log holds %r from its start position on, but nothing was ever delivered" % (
                            run["no"], prev["no"], "after shutdown()" if prev.get("shutdown_watch") is not None else "after stop()", 20.0 + 4 * self.timeout, rest[:4]))
                    if self.faults:
                        self.note("C08.recovery", "C08.consumer-did-not-recover", "run #%d: faults (leader moves, restarts, refused connections) ceased %.0f virtual seconds ago, yet the consumer has not resumed: log records %r were not delivered" % (run["no"], 20.0 + 4 * self.timeout, rest[:5]))
                    self.note("C02.completeness", "C02.not-delivered-after-faults-ceased", "run #%d: faults ceased %.0f virtual seconds ago, the processor succeeds, yet log records %r were not delivered" % (run["no"], 20.0 + 4 * self.timeout, rest[:5]))
                elif not rest and self.faults:
                    self.nt.add("recovered-after-faults")
        # stop everything and make sure nothing is left
        if run is not None and run.get("stopped_evseq") is None:
            self.evseq += 1
            try:
                ret = self.consumer.stop()
                self._record_stop(run, ret)
            except Exception as e:  # noqa
                run["stopped_evseq"] = self.evseq
                self.note("C13.stop", "C13.stop-raised/%s" % type(e).__name__, "final Consumer.stop() raised %r" % e)
            self._after_event()
            self.raise_noted()
        res = self._quiet(40.0 + 4 * self.timeout)
        if res == "caught-up":
            res = "quiescent"
        if res != "quiescent":
            left = [d for d in w.afkak_calls()]
            if left and not w.pending():
                self.note("C13.nothing-after-stop", "C13.timers-left-after-stop", "delayed calls still active long after stop(): %r" % [repr(d)[:90] for d in left[:3]])
            else:
                self.ctx.inconclusive += 1
                self.labels.add("inconclusive-horizon")
            return
        for r in self.runs:
            if r.get("watch") is not None and r["watch"].state == "pending" and not r.get("crashed"):
                self.note("C13.start-fires-once", "C13.start-deferred-never-fired", "start() Deferred of run #%d never fired" % r["no"])
            sw = r.get("shutdown_watch")
            if sw is not None and sw.state == "pending" and not r.get("crashed"):
                self.note("C13.shutdown-fires-once", "C13.shutdown-deferred-never-fired", "shutdown() Deferred of run #%d never fired (commit outcome path)" % r["no"])
        if cl.grammar_errors:
            self.note("C04.grammar", "C04.grammar/consumer-end-to-end", "request rejected by the strict parser: %s" % cl.grammar_errors[0]["error"])
        nruns = len(self.runs)
        ninv = len(self.invocations)
        if any(r.get("multi") for r in self.runs) and (self.faults or any(b.wrapper for b in self.part.batches)):
            self.nt.add("multi-fetch-run-with-wrappers-or-faults")
        self.obs = {"runs": nruns, "invocations": ninv, "delivered": sum(len(r["delivered"]) for r in self.runs), "log_records": len(self._records()), "commit_requests": len(self.commit_writes),
                    "faults": self.faults, "crashes": self.crashes, "labels": sorted(self.labels | self.nt)}

    def check(self, step):
        pass

    def nontrivial(self):
        return bool(self.nt)
