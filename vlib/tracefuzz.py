"""Coverage-guided trace search (atheris/libFuzzer driving Hypothesis' choice sequence) as an extra portion of an engine check.
The target is fuzz/traces.py; this module runs it for one shard, folds its counters into the shard's evidence and turns a crash
(= unlisted violation found by the fuzzer) into an ordinary violation with a JSON replay."""
import glob
import json
import os
import random
import re
import shutil
import subprocess
import sys

from . import jsonx
from .runner import HOME, REPO, OracleViolation, Violation


def run(ctx, modname, runs, max_len=4096, nshards=4, timeout=7200, max_steps=60):
    """shards 0..nshards-1 each run an independent libFuzzer campaign of `runs` executions (seeded from VERIF_SEED and the shard)"""
    if ctx.shard >= nshards or runs <= 0:
        return
    wd = os.path.join(os.environ.get("VERIF_OUT", HOME), ".work", "tracefuzz", modname, "shard%d" % ctx.shard)
    shutil.rmtree(wd, ignore_errors=True)
    corpus = os.path.join(wd, "corpus")
    os.makedirs(corpus)
    # starting corpus: random byte strings long enough to be complete choice sequences (an empty corpus makes libFuzzer start
    # from inputs too short for Hypothesis to finish a single case); even shards also get a few all-zero inputs (= minimal draws)
    r = random.Random(ctx.hseed(11))
    for i in range(24):
        with open(os.path.join(corpus, "seed%02d" % i), "wb") as f:
            f.write(bytes(r.getrandbits(8) for _ in range(r.choice([600, 1500, 3000]))))
    if ctx.shard % 2 == 0:
        for i, n in enumerate([400, 1200]):
            with open(os.path.join(corpus, "zero%02d" % i), "wb") as f:
                f.write(bytes(n))
    env = dict(os.environ)
    env["PYTHONPATH"] = os.pathsep.join([REPO, HOME, os.path.join(HOME, ".deps")])
    env["VERIF_FUZZ_MAX_STEPS"] = str(max_steps)
    cmd = [sys.executable, "-B", "-W", "ignore", os.path.join(HOME, "fuzz", "traces.py"), modname, wd, "-runs=%d" % runs, "-seed=%d" % (ctx.hseed(13) or 1),
           "-max_len=%d" % max_len, "-len_control=0", "-artifact_prefix=%s/" % wd, "-print_final_stats=1", "-timeout=300", corpus]
    try:
        # started through a small intermediate shell that forks: libFuzzer reads the process's peak RSS (ru_maxrss), which a
        # fork+exec child inherits from a large parent - the shard process - and would report "out-of-memory" at once
        import shlex

        cmd = ["/bin/sh", "-c", shlex.join(cmd) + "; exit $?"]
        p = subprocess.run(cmd, env=env, stdout=subprocess.PIPE, stderr=subprocess.STDOUT, timeout=timeout)
        out = p.stdout.decode("utf-8", "replace")
    except subprocess.TimeoutExpired:
        ctx.inconclusive += 1
        ctx.labels["tracefuzz-wall-limit"] += 1
        return
    if "No module named 'atheris'" in out:
        ctx.extra["tracefuzz"] = "atheris unavailable"
        return
    try:
        s = json.load(open(os.path.join(wd, "stats.json")))
    except Exception:  # noqa
        s = {"runs": 0, "valid": 0, "nontrivial": 0, "samples": [], "labels": {}}
    m = re.search(r"stat::number_of_executed_units:\s*(\d+)", out)
    execs = int(m.group(1)) if m else s.get("runs", 0)
    ctx.evaluations += s.get("valid", 0)
    ctx.labels["tracefuzz-exec"] += execs
    ctx.labels["tracefuzz-complete-case"] += s.get("valid", 0)
    for k, v in s.get("labels", {}).items():
        ctx.labels[k] += v
    ctx.extra["nt_extra"] = ctx.extra.get("nt_extra", 0) + s.get("nontrivial", 0)
    ctx.extra["tracefuzz_execs"] = execs
    mc = re.findall(r"cov: (\d+) ft: (\d+)", out)
    if mc:
        ctx.extra["tracefuzz_cov_ft"] = [int(mc[-1][0]), int(mc[-1][1])]
    for smp in s.get("samples", [])[:1]:
        if len(ctx.nt_samples) < 4:
            ctx.nt_samples.append({"found_by": "tracefuzz", "case": smp})
    vf = os.path.join(wd, "violation.json")
    if os.path.exists(vf):
        v = json.load(open(vf))
        ctx.violations.append(Violation(v["property"], v["clause"], v["signature"], v["detail"] + " [found by coverage-guided trace fuzzing]", jsonx.dec(v["case"])))
    elif glob.glob(os.path.join(wd, "crash-*")) or glob.glob(os.path.join(wd, "timeout-*")):
        # the target died without an oracle verdict: harness problem, not a property violation
        ctx.extra["tracefuzz_crash"] = out[-1500:]
        ctx.inconclusive += 1
        ctx.labels["tracefuzz-target-crashed"] += 1
    shutil.rmtree(wd, ignore_errors=True)
    _ = OracleViolation
