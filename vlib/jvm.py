"""Foreign oracle for C18: Kafka's Utils.murmur2 on the real JVM, one long-lived
subprocess answering hex keys line by line.  Falls back to an independent
integer-arithmetic transcription (NOT afkak's) if no JVM is available."""
import os
import shutil
import subprocess

from .runner import HOME


class JavaMurmur2(object):
    def __init__(self):
        self.proc = None
        self.kind = "python-fallback"
        cdir = os.path.join(HOME, ".work", "java")
        java = shutil.which("java")
        if java and not os.path.exists(os.path.join(cdir, "Murmur2Ref.class")) and shutil.which("javac"):
            os.makedirs(cdir, exist_ok=True)
            subprocess.call(["javac", "-d", cdir, os.path.join(HOME, "ref", "Murmur2Ref.java")])
        if java and os.path.exists(os.path.join(cdir, "Murmur2Ref.class")):
            self.proc = subprocess.Popen(
                [java, "-Xss512k", "-Xmx64m", "-XX:+UseSerialGC", "-XX:TieredStopAtLevel=1", "-cp", cdir, "Murmur2Ref"],
                stdin=subprocess.PIPE,
                stdout=subprocess.PIPE,
                bufsize=1 << 16,
            )
            self.kind = "jvm"

    def hash_many(self, keys):
        """keys: list of bytes -> list of signed 32-bit ints (Java int)."""
        if self.proc is None:
            return [_fallback(k) for k in keys]
        out = []
        for i in range(0, len(keys), 2000):
            chunk = keys[i : i + 2000]
            buf = b"".join((k.hex().encode() if k else b"-") + b"\n" for k in chunk) + b"F\n"
            self.proc.stdin.write(buf)
            self.proc.stdin.flush()
            for _ in chunk:
                out.append(int(self.proc.stdout.readline()))
        return out

    def close(self):
        if self.proc is not None:
            try:
                self.proc.stdin.write(b"Q\n")
                self.proc.stdin.close()
                self.proc.wait(timeout=5)
            except Exception:
                self.proc.kill()
            self.proc = None


def _i32(x):
    x &= 0xFFFFFFFF
    return x - (1 << 32) if x & 0x80000000 else x


def _fallback(data):
    """Java semantics emulated with explicit two's complement (used only
    without a JVM; evidence says so)."""
    m = 0x5BD1E995
    length = len(data)
    h = _i32(0x9747B28C ^ length)
    for i in range(length // 4):
        i4 = i * 4
        k = _i32(data[i4] + (data[i4 + 1] << 8) + (data[i4 + 2] << 16) + (data[i4 + 3] << 24))
        k = _i32(k * m)
        k = _i32(k ^ ((k & 0xFFFFFFFF) >> 24))
        k = _i32(k * m)
        h = _i32(h * m)
        h = _i32(h ^ k)
    rem = length % 4
    base = length & ~3
    if rem == 3:
        h = _i32(h ^ (data[base + 2] << 16))
    if rem >= 2:
        h = _i32(h ^ (data[base + 1] << 8))
    if rem >= 1:
        h = _i32(h ^ data[base])
        h = _i32(h * m)
    h = _i32(h ^ ((h & 0xFFFFFFFF) >> 13))
    h = _i32(h * m)
    h = _i32(h ^ ((h & 0xFFFFFFFF) >> 15))
    return h
