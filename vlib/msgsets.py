"""Hypothesis strategies for message sets as a broker stores/serves them, in
refproto's entry model (see refproto.encode_message_set).  Shared by C05, C12
and the simulated cluster."""
from hypothesis import strategies as st

KEY = st.one_of(st.none(), st.just(b""), st.binary(min_size=1, max_size=8))
VALUE = st.one_of(st.none(), st.just(b""), st.binary(min_size=1, max_size=24), st.binary(min_size=25, max_size=200))
TS = st.one_of(st.just(-1), st.integers(0, 2 ** 42), st.integers(-(2 ** 63), 2 ** 63 - 1))


@st.composite
def plain(draw, magic, offset):
    attrs = 0
    if magic == 1 and draw(st.integers(0, 5)) == 0:
        attrs = 8  # timestamp type bit (LogAppendTime) on a plain message
    return {
        "offset": offset, "magic": magic, "attributes": attrs, "key": draw(KEY), "value": draw(VALUE),
        "timestamp": draw(TS) if magic == 1 else None,
    }


@st.composite
def wrapper(draw, magic, first_abs, depth=1, max_inner=5):
    """A gzip wrapper whose records get absolute offsets first_abs.. (strictly increasing, gaps allowed).
    Returns (entry, last_abs)."""
    n = draw(st.integers(1, max_inner))
    gaps = draw(st.lists(st.integers(0, 3), min_size=n, max_size=n))
    abs_offsets = []
    cur = first_abs
    for g in gaps:
        cur += g
        abs_offsets.append(cur)
        cur += 1
    last = abs_offsets[-1]
    inner = []
    if magic == 0:
        stored = abs_offsets  # magic 0: absolute offsets inside the wrapper
    else:
        # magic 1 (KIP-31): relative offsets inside the wrapper (starting at r0 >= 0; > 0 when compaction
        # removed the head), the wrapper itself carries the absolute offset of the last inner record
        r0 = draw(st.integers(0, 2))
        stored = [r0 + (a - abs_offsets[0]) for a in abs_offsets]
    for so in stored:
        if depth >= 2 and draw(st.integers(0, 3)) == 0 and magic == 0:
            e, _ = draw(wrapper(magic, so, depth=depth - 1, max_inner=2))
            # nested wrapper occupies a single slot: its inner offsets are all "so"
            for x in e["inner"]:
                x["offset"] = so
            e["offset"] = so
            inner.append(e)
        else:
            inner.append(draw(plain(magic, so)))
    entry = {"offset": last, "magic": magic, "attributes": 1, "key": None, "timestamp": draw(TS) if magic == 1 else None, "inner": inner}
    return entry, last


@st.composite
def message_set(draw, max_entries=6, magic=None, start=None, allow_nested=True):
    """List of top-level entries with strictly increasing absolute offsets."""
    n = draw(st.integers(0, max_entries))
    cur = draw(st.one_of(st.integers(0, 50), st.integers(0, 2 ** 40), st.just(2 ** 62))) if start is None else start
    entries = []
    for _ in range(n):
        m = draw(st.sampled_from([0, 1])) if magic is None else magic
        cur += draw(st.integers(0, 4))
        if draw(st.integers(0, 2)) == 0:
            e, last = draw(wrapper(m, cur, depth=2 if allow_nested else 1))
            entries.append(e)
            cur = last + 1
        else:
            entries.append(draw(plain(m, cur)))
            cur += 1
    return entries


def features(entries):
    f = set()
    for e in entries:
        if e.get("inner") is not None:
            f.add("wrapper-magic%d" % e["magic"])
            for x in e["inner"]:
                if x.get("inner") is not None:
                    f.add("nested-wrapper")
                elif x["key"] is None or x["value"] is None:
                    f.add("null-field")
        else:
            if e["magic"] == 1:
                f.add("magic1")
            if e["key"] is None or e["value"] is None:
                f.add("null-field")
    return f
