"""JSON with bytes / tuples, and canonical hashing of cases."""
import hashlib
import json


def enc(o):
    if isinstance(o, (bytes, bytearray)):
        return {"$b": bytes(o).hex()}
    if isinstance(o, tuple):
        return {"$t": [enc(x) for x in o]}
    if isinstance(o, list):
        return [enc(x) for x in o]
    if isinstance(o, dict):
        if all(isinstance(k, str) for k in o):
            return {k: enc(v) for k, v in o.items()}
        return {"$d": [[enc(k), enc(v)] for k, v in o.items()]}
    if isinstance(o, (str, int, float, bool)) or o is None:
        return o
    if isinstance(o, (set, frozenset)):
        return {"$s": sorted((enc(x) for x in o), key=lambda x: json.dumps(x, sort_keys=True))}
    return {"$r": repr(o)}


def dec(o):
    if isinstance(o, list):
        return [dec(x) for x in o]
    if isinstance(o, dict):
        if len(o) == 1:
            if "$b" in o:
                return bytes.fromhex(o["$b"])
            if "$t" in o:
                return tuple(dec(x) for x in o["$t"])
            if "$d" in o:
                return {dec(k): dec(v) for k, v in o["$d"]}
            if "$s" in o:
                return set(dec(x) for x in o["$s"])
            if "$r" in o:
                return o["$r"]
        return {k: dec(v) for k, v in o.items()}
    return o


def dumps(o, **kw):
    return json.dumps(enc(o), **kw)


def loads(s):
    return dec(json.loads(s))


def chash(o):
    return hashlib.sha1(json.dumps(enc(o), sort_keys=True, separators=(",", ":")).encode()).hexdigest()[:16]


def abbreviate(o, maxbytes=48, maxlist=40, depth=0):
    """Shorten a case for inclusion as an evidence sample."""
    if isinstance(o, (bytes, bytearray)):
        b = bytes(o)
        if len(b) > maxbytes:
            return "<%d bytes %s...>" % (len(b), b[:16].hex())
        return "0x" + b.hex()
    if isinstance(o, str):
        return o if len(o) <= 200 else o[:200] + "...<%d chars>" % len(o)
    if isinstance(o, (list, tuple)):
        out = [abbreviate(x, maxbytes, maxlist, depth + 1) for x in o[:maxlist]]
        if len(o) > maxlist:
            out.append("...<%d more>" % (len(o) - maxlist))
        return out
    if isinstance(o, dict):
        return {str(k): abbreviate(v, maxbytes, maxlist, depth + 1) for k, v in list(o.items())[:maxlist]}
    if isinstance(o, (int, float, bool)) or o is None:
        return o
    return repr(o)[:200]
