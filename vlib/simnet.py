"""simnet - virtual time, in-memory endpoints/transports and a queue of
schedulable network events.  Nothing happens unless a trace step makes it
happen.  afkak runs unmodified on `world.clock` (a twisted task.Clock) and on
`world.endpoint_factory`.

Event kinds (world.events, FIFO = "the boring schedule"):
    connect  resolve a pending connection attempt (accept if someone listens, else refuse)
    srv      the peer behind a connection processes its next inbound frame
    dlv      the next outbound chunk of a connection is handed to the client's dataReceived
    lost     the client protocol is told connectionLost
Simulator-origin timers live in world.sim_timers, NOT on the clock, so that
"afkak left a delayed call behind" can be asked of afkak alone.
"""
import struct

from twisted.internet import address, defer, error, task
from twisted.python import failure


class Event(object):
    __slots__ = ("kind", "conn", "attempt", "seq", "done")

    def __init__(self, kind, conn=None, attempt=None):
        self.kind = kind
        self.conn = conn
        self.attempt = attempt
        self.seq = 0
        self.done = False

    def alive(self):
        if self.done:
            return False
        c = self.conn
        if self.kind == "connect":
            return not self.attempt.resolved
        if self.kind == "srv":
            return (not c.dropped) and bool(c.frames_in)
        if self.kind == "dlv":
            return (not c.client_closed) and (not c.dropped) and (not c.lost_delivered) and bool(c.s2c)
        if self.kind == "lost":
            return not c.lost_delivered
        return False

    def __repr__(self):
        return "<%s %s>" % (self.kind, self.conn.cid if self.conn else self.attempt.aid)


class Attempt(object):
    def __init__(self, world, host, port, factory):
        self.world = world
        self.aid = len(world.attempt_log)
        self.host = host
        self.port = port
        self.factory = factory
        self.time = world.now
        self.step = world.step_no
        self.resolved = False
        self.cancelled = False
        self.hung = False
        self.outcome = None
        self.d = defer.Deferred(self._cancel)

    def _cancel(self, d):
        self.cancelled = True
        self.resolved = True
        self.outcome = "cancelled"
        d.errback(failure.Failure(error.ConnectingCancelledError(address.IPv4Address("TCP", self.host, self.port))))


class SimEndpoint(object):
    def __init__(self, world, host, port):
        self.world = world
        self.host = host
        self.port = port

    def connect(self, factory):
        w = self.world
        a = Attempt(w, self.host, self.port, factory)
        w.attempt_log.append(a)
        if w.forbid_connects:
            w.forbidden.append(("connect", a.host, a.port, w.step_no))
        peer = w.listeners.get((a.host, a.port))
        if peer is not None and getattr(peer, "refuses_synchronously", None) is not None and peer.refuses_synchronously(a.host, a.port):
            # an endpoint may fail before returning: connect() hands back an already-failed Deferred
            a.resolved = True
            a.outcome = "refused-sync"
            return defer.fail(failure.Failure(error.ConnectionRefusedError("refused (synchronously) %s:%s" % (a.host, a.port))))
        ev = Event("connect", attempt=a)
        w.push(ev)
        return a.d

    def __repr__(self):
        return "<SimEndpoint %s:%s>" % (self.host, self.port)


class _ByteCount(object):
    """stands in for a growing byte string of which only the length is used"""

    def __init__(self):
        self.n = 0

    def __iadd__(self, chunk):
        self.n += len(chunk)
        return self

    def __len__(self):
        return self.n


class SimTransport(object):
    disconnecting = False
    disconnected = False

    def __init__(self, conn):
        self.conn = conn

    def write(self, data):
        self.conn.client_write(bytes(data))

    def writeSequence(self, seq):
        self.write(b"".join(seq))

    def loseConnection(self, *a, **k):
        self.disconnecting = True
        self.conn.client_close()

    def abortConnection(self):
        self.loseConnection()

    def getPeer(self):
        return address.IPv4Address("TCP", self.conn.host, self.conn.port)

    def getHost(self):
        return address.IPv4Address("TCP", "127.0.0.99", 40000 + self.conn.cid)

    def pauseProducing(self):
        pass

    def resumeProducing(self):
        pass

    def stopProducing(self):
        self.loseConnection()

    def registerProducer(self, producer, streaming):
        pass

    def unregisterProducer(self):
        pass

    def setTcpNoDelay(self, enabled):
        pass

    def setTcpKeepAlive(self, enabled):
        pass


class Conn(object):
    """One accepted connection.  c2s: client->peer, s2c: peer->client."""

    def __init__(self, world, attempt, peer):
        self.world = world
        self.cid = len(world.conns)
        self.host = attempt.host
        self.port = attempt.port
        self.attempt = attempt
        self.peer = peer
        self.opened = world.now
        self.opened_step = world.step_no
        self.c2s_buf = bytearray()
        self.frames_in = []  # complete frames not yet processed by the peer
        self.frames_written = []  # every complete frame the client wrote: (step, time, bytes)
        self.frames_processed = []  # frames the peer has processed
        self.s2c = []  # chunks (bytes) not yet delivered
        self.delivered = _ByteCount()  # how much was handed to dataReceived (only the amount is ever needed; multi-megabyte fetch replies add up)
        self.client_closed = False  # client called loseConnection
        self.client_closed_step = None
        self.dropped = False  # network / peer killed it
        self.lost_queued = False
        self.lost_delivered = False
        self.lost_reason = None
        self.proto = None
        self.transport = SimTransport(self)
        self.userdata = {}
        self.late_writes = []  # writes after the client itself closed the transport

    # -- client side -------------------------------------------------------
    def client_write(self, data):
        w = self.world
        if w.forbid_writes:
            w.forbidden.append(("write", self.cid, len(data), w.step_no))
        if self.lost_delivered:
            self.late_writes.append((w.step_no, len(data)))
            return
        # NB: bytes written after loseConnection() but before the transport is gone are still flushed by a
        # real TCP transport ("close after writing all pending data"), so they count as written.
        self.c2s_buf += data
        while len(self.c2s_buf) >= 4:
            (n,) = struct.unpack(">I", self.c2s_buf[:4])
            if len(self.c2s_buf) < 4 + n:
                break
            frame = bytes(self.c2s_buf[4 : 4 + n])
            del self.c2s_buf[: 4 + n]
            # the client's view: the frame was written (it cannot know the network already dropped the connection)
            self.frames_written.append((w.step_no, w.now, frame))
            w.write_log.append((w.step_no, w.now, self, frame))
            if w.on_write is not None:
                w.on_write(self, frame)
            if not self.dropped:
                self.frames_in.append(frame)
                w.push(Event("srv", conn=self))

    def client_close(self):
        if self.client_closed:
            return
        self.client_closed = True
        self.client_closed_step = self.world.step_no
        self.queue_lost(error.ConnectionDone())

    # -- peer / network side -------------------------------------------------
    def send(self, data):
        """Peer writes bytes towards the client (one chunk = one dlv event)."""
        if self.dropped or self.client_closed:
            return
        self.s2c.append(bytes(data))
        self.world.push(Event("dlv", conn=self))

    def send_frame(self, payload):
        self.send(struct.pack(">I", len(payload)) + payload)

    def drop(self, reason=None):
        """The network (or the peer) kills the connection: undelivered bytes in both directions are lost."""
        if self.dropped:
            return
        self.dropped = True
        self.frames_in = []
        self.s2c = []
        self.queue_lost(reason or error.ConnectionLost())

    def peer_close(self):
        """Orderly close by the peer: bytes already queued towards the client are still deliverable."""
        self.queue_lost(error.ConnectionDone())

    def queue_lost(self, reason):
        if self.lost_queued:
            return
        self.lost_queued = True
        self.lost_reason = reason
        self.world.push(Event("lost", conn=self))

    @property
    def open_for_client(self):
        return not (self.client_closed or self.dropped or self.lost_delivered or self.lost_queued)

    def __repr__(self):
        return "<Conn %d %s:%s>" % (self.cid, self.host, self.port)


class World(object):
    CONNECT_TIMEOUT = 30.0

    def __init__(self):
        self.clock = task.Clock()
        self.clocks = [self.clock]
        self.now = 0.0
        self.events = []
        self._seq = 0
        self.sim_timers = []  # [time, seq, fn, tag]
        self.conns = []
        self.attempt_log = []
        self.write_log = []
        self.listeners = {}  # (host, port) -> peer (object with .listening(host, port) and .on_connect/.on_frame)
        self.step_no = 0
        self.forbid_connects = False
        self.forbid_writes = False
        self.forbidden = []
        self.exceptions = []  # exceptions escaping protocol callbacks (diagnostics)
        self.on_write = None  # observer(conn, frame), called synchronously at write time (record only!)

    # ------------------------------------------------------------------
    def endpoint_factory(self, reactor, host, port):
        return SimEndpoint(self, str(host), int(port))

    def push(self, ev):
        self._seq += 1
        ev.seq = self._seq
        self.events.append(ev)

    def pending(self, kind=None):
        self.events = [e for e in self.events if e.alive()]
        if kind is None:
            return self.events
        return [e for e in self.events if e.kind == kind]

    def live_conns(self):
        return [c for c in self.conns if not c.lost_delivered and not c.dropped and not c.client_closed]

    # ------------------------------------------------------------------
    # time

    def call_later(self, delay, fn, tag="sim"):
        self._seq += 1
        t = [self.now + delay, self._seq, fn, tag, False]
        self.sim_timers.append(t)
        return t

    @staticmethod
    def cancel_timer(t):
        t[4] = True

    def afkak_calls(self):
        out = []
        for c in self.clocks:
            out.extend(dc for dc in c.getDelayedCalls() if dc.active())
        return out

    def next_timer(self):
        """(time, origin, obj) of the earliest pending timer or None; afkak first on ties."""
        best = None
        for clk in self.clocks:
            for dc in clk.calls:
                if dc.cancelled or dc.called:
                    continue
                k = (dc.getTime(), 0)
                if best is None or k < best[0]:
                    best = (k, "afkak", (clk, dc))
        self.sim_timers = [t for t in self.sim_timers if not t[4]]
        for t in self.sim_timers:
            k = (t[0], 1 + t[1])
            if best is None or k < best[0]:
                best = (k, "sim", t)
        if best is None:
            return None
        return best[0][0], best[1], best[2]

    def set_time(self, t):
        if t < self.now:
            t = self.now
        self.now = t
        for c in self.clocks:
            c.rightNow = t

    def fire_next_timer(self, limit=None):
        nt = self.next_timer()
        if nt is None:
            return False
        t, origin, obj = nt
        if limit is not None and t > limit:
            return False
        self.set_time(t)
        if origin == "afkak":
            clk, dc = obj
            clk.calls.remove(dc)
            dc.called = 1
            try:
                dc.func(*dc.args, **dc.kw)
            except Exception as e:  # noqa - what a reactor does: log and carry on
                self.exceptions.append(("timer", repr(e)))
        else:
            obj[4] = True
            obj[2]()
        return True

    def advance(self, dt):
        target = self.now + dt
        n = 0
        while n < 10000 and self.fire_next_timer(limit=target):
            n += 1
        self.set_time(target)

    # ------------------------------------------------------------------
    # events

    def process(self, ev, action=None):
        if not ev.alive():
            return False
        if ev.kind == "connect":
            self._resolve(ev.attempt, action)
            ev.done = True
        elif ev.kind == "srv":
            c = ev.conn
            frame = c.frames_in.pop(0)
            c.frames_processed.append(frame)
            ev.done = True
            c.peer.on_frame(c, frame)
        elif ev.kind == "dlv":
            c = ev.conn
            chunk = c.s2c.pop(0)
            ev.done = True
            c.delivered += chunk
            try:
                c.proto.dataReceived(chunk)
            except Exception as e:  # noqa - a reactor logs and drops the connection
                self.exceptions.append(("dataReceived", repr(e)))
                c.client_closed = True
                c.queue_lost(e)
        elif ev.kind == "lost":
            c = ev.conn
            ev.done = True
            c.lost_delivered = True
            c.s2c = []
            try:
                c.proto.connectionLost(failure.Failure(c.lost_reason))
            except Exception as e:  # noqa
                self.exceptions.append(("connectionLost", repr(e)))
            if hasattr(c.peer, "on_disconnect"):
                c.peer.on_disconnect(c)
        return True

    def _resolve(self, a, action=None):
        if a.resolved:
            return
        peer = self.listeners.get((a.host, a.port))
        if action is None:
            action = "accept" if (peer is not None and peer.accepting(a.host, a.port)) else "refuse"
        if action == "accept" and (peer is None or not peer.accepting(a.host, a.port)):
            action = "refuse"
        if action == "hang":
            a.hung = True

            def timeout():
                if not a.resolved:
                    a.resolved = True
                    a.outcome = "timeout"
                    a.d.errback(failure.Failure(error.TimeoutError("connect to %s:%s timed out" % (a.host, a.port))))

            self.call_later(self.CONNECT_TIMEOUT, timeout, tag="connect-timeout")
            return
        a.resolved = True
        if action == "refuse":
            a.outcome = "refused"
            a.d.errback(failure.Failure(error.ConnectionRefusedError("refused %s:%s" % (a.host, a.port))))
            return
        a.outcome = "accepted"
        conn = Conn(self, a, peer)
        self.conns.append(conn)
        proto = a.factory.buildProtocol(address.IPv4Address("TCP", a.host, a.port))
        conn.proto = proto
        if hasattr(peer, "on_connect"):
            peer.on_connect(conn)
        proto.makeConnection(conn.transport)
        a.d.callback(proto)

    def split_head(self, conn, n):
        """Split the next outbound chunk of conn after n bytes (arbitrary TCP segmentation)."""
        if not conn.s2c or len(conn.s2c[0]) < 2:
            return False
        head = conn.s2c[0]
        n = 1 + (n % (len(head) - 1))
        conn.s2c[0:1] = [head[:n], head[n:]]
        # one more dlv event right behind the first one for this conn
        idx = None
        for i, e in enumerate(self.events):
            if e.kind == "dlv" and e.conn is conn and not e.done:
                idx = i
                break
        ev = Event("dlv", conn=conn)
        self._seq += 1
        ev.seq = self._seq
        if idx is None:
            self.events.append(ev)
        else:
            self.events.insert(idx + 1, ev)
        return True

    def merge_head(self, conn):
        """Coalesce the next two outbound chunks of conn into one (the transport hands them to the client in one dataReceived)."""
        if len(conn.s2c) < 2:
            return False
        evs = [e for e in self.events if e.kind == "dlv" and e.conn is conn and not e.done]
        if len(evs) < 2:
            return False
        conn.s2c[0:2] = [conn.s2c[0] + conn.s2c[1]]
        evs[1].done = True
        return True

    def run_fifo(self, k):
        n = 0
        while n < k:
            evs = self.pending()
            if not evs:
                break
            self.process(evs[0])
            n += 1
        return n

    def settle(self, max_steps=5000, horizon=None, stop=None):
        """FIFO everything; when no event is pending fire the next timer; stop at quiescence / horizon / cap.
        Returns 'quiescent' | 'horizon' | 'cap' | 'stop'."""
        n = 0
        while n < max_steps:
            if stop is not None and stop():
                return "stop"
            evs = self.pending()
            if evs:
                self.process(evs[0])
            else:
                nt = self.next_timer()
                if nt is None:
                    return "quiescent"
                if horizon is not None and nt[0] > horizon:
                    return "horizon"
                self.fire_next_timer()
            n += 1
        return "cap"


# ---------------------------------------------------------------------------
# watching Deferreds


class Watch(object):
    """Observes one Deferred: effective firings (a pass-through callback added
    first) and firing *attempts* (instance-attribute wrappers on
    callback/errback, which afkak, inlineCallbacks and cancel() all go through)."""

    def __init__(self, d, world, label=None):
        self.d = d
        self.world = world
        self.label = label
        self.fired = []  # [(step, time, 'ok'|'err', value)]
        self.attempts = 0
        self.extra_attempts = []  # attempts after the first (AlreadyCalledError inside afkak)
        self.cancel_called = False
        d.addBoth(self._rec)
        orig_cb, orig_eb, orig_cancel = d.callback, d.errback, d.cancel

        def cb(result):
            self._attempt("callback", result)
            return orig_cb(result)

        def eb(fail=None):
            self._attempt("errback", fail)
            return orig_eb(fail)

        def cancel():
            self.cancel_called = True
            return orig_cancel()

        d.callback, d.errback, d.cancel = cb, eb, cancel

    def _attempt(self, how, val):
        self.attempts += 1
        if self.d.called and not getattr(self.d, "_suppressAlreadyCalled", False):
            self.extra_attempts.append((self.world.step_no, how, repr(val)[:200]))

    def _rec(self, result):
        kind = "err" if isinstance(result, failure.Failure) else "ok"
        self.fired.append((self.world.step_no, self.world.now, kind, result))
        return result

    @property
    def state(self):
        if not self.fired:
            return "pending"
        return self.fired[0][2]

    @property
    def value(self):
        return self.fired[0][3] if self.fired else None

    def silence(self):
        """Consume the failure so nothing is logged at GC time."""
        self.d.addErrback(lambda f: None)
