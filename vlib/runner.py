"""Shared runner: tiers, seeds, sharding over processes, Hypothesis glue,
violations / known findings, evidence files, exit codes.

A check module (checks/cNN.py) provides:
    PROP        property id
    RULE        how cases are generated and what makes one non-trivial
    ASSUMPTIONS list of strings
    TECHNIQUE   short string
    shard(ctx)  run this shard's share of the budget, recording through ctx
    replay(case, ctx)   re-run one saved case with no PBT library involved
    selfcheck() optional; raises on harness/model defects (-> exit 2)
    NSHARDS     optional (default 16)
"""
import collections
import importlib
import json
import multiprocessing
import os
import sys
import time
import traceback

from . import jsonx

HOME = os.environ.get("VERIF_HOME") or os.path.dirname(os.path.dirname(os.path.abspath(__file__)))
REPO = os.environ.get("VERIF_REPO", "/repo")
# evidence/ and violations/ go under OUT (sensitivity runs against mutants point it at scratch)
OUT = os.environ.get("VERIF_OUT") or HOME


class Violation(object):
    def __init__(self, prop, clause, sig, detail, case=None):
        self.prop = prop
        self.clause = clause
        self.sig = sig
        self.detail = detail
        self.case = case

    def to_json(self):
        return {"property": self.prop, "clause": self.clause, "signature": self.sig, "detail": self.detail}


class OracleViolation(Exception):
    def __init__(self, v):
        Exception.__init__(self, "%s %s: %s" % (v.prop, v.sig, v.detail))
        self.v = v


class HarnessError(Exception):
    pass


class Ctx(object):
    def __init__(self, prop, tier, seed, shard, nshards, known):
        self.prop = prop
        self.tier = tier
        self.seed = seed
        self.shard = shard
        self.nshards = nshards
        self.known = known  # {sig: description}
        self.replaying = False
        self.evaluations = 0
        self.nontrivial = set()
        self.labels = collections.Counter()
        self.samples = []
        self.nt_samples = []
        self.violations = []
        self.known_hits = collections.Counter()
        self.inconclusive = 0
        self.rejected = 0
        self.extra = {}
        self.current = None  # replayable description of the case being run

    # ---- budgets / seeds -------------------------------------------------
    def n(self, quick, thorough):
        """Per-shard budget for the tier."""
        total = quick if self.tier == "quick" else thorough
        scale = float(os.environ.get("VERIF_BUDGET_SCALE", "1"))
        total = int(total * scale)
        per = total // self.nshards
        if self.shard < total % self.nshards:
            per += 1
        return max(per, 1 if self.shard == 0 else 0) if total < self.nshards else per

    def hseed(self, offset=0):
        return (self.seed * 1000003 + self.shard * 7919 + offset * 104729) % (2 ** 32)

    # ---- recording ---------------------------------------------------------
    def case(self, key=None, nontrivial=False, labels=(), sample=None):
        self.evaluations += 1
        for lab in labels:
            self.labels[lab] += 1
        if nontrivial:
            self.labels["nontrivial"] += 1
            h = key if isinstance(key, str) and len(key) == 16 else jsonx.chash(key)
            self.nontrivial.add(h)
            if sample is not None and len(self.nt_samples) < 3:
                self.nt_samples.append(jsonx.abbreviate(sample))
        elif sample is not None and len(self.samples) < 1:
            self.samples.append(jsonx.abbreviate(sample))

    def is_known(self, sig):
        return sig in self.known

    def flag(self, clause, sig, detail, case=None):
        """Report an oracle failure.  Listed findings are counted and the
        search continues (returns True); anything else raises."""
        if case is None:
            case = self.current
        if not self.replaying and sig in self.known:
            self.known_hits[sig] += 1
            return True
        raise OracleViolation(Violation(self.prop, clause, sig, detail, case))

    def result(self):
        return {
            "shard": self.shard,
            "evaluations": self.evaluations,
            "nontrivial": sorted(self.nontrivial),
            "labels": dict(self.labels),
            "samples": self.nt_samples + self.samples,
            "violations": [(v.clause, v.sig, v.detail, jsonx.enc(v.case)) for v in self.violations],
            "known_hits": dict(self.known_hits),
            "inconclusive": self.inconclusive,
            "rejected": self.rejected,
            "extra": self.extra,
        }


# ---------------------------------------------------------------------------
# Hypothesis glue


def hyp(ctx, strategy, body, n, shrink=True, offset=0):
    """Run body(value) on n generated values.  body records through ctx and
    raises OracleViolation for an unlisted violation; the (shrunk) failing
    case is whatever ctx.current was when the final failure was raised."""
    if n <= 0:
        return
    from hypothesis import HealthCheck, Phase, given, seed, settings

    phases = [Phase.generate] + ([Phase.shrink] if shrink else [])
    last = {}

    def wrapped(v):
        try:
            body(v)
        except OracleViolation as e:
            last["v"] = e.v
            raise

    @seed(ctx.hseed(offset))
    @settings(
        max_examples=n,
        database=None,
        deadline=None,
        derandomize=False,
        report_multiple_bugs=False,
        phases=phases,
        print_blob=False,
        suppress_health_check=[HealthCheck.too_slow, HealthCheck.data_too_large, HealthCheck.large_base_example],
    )
    @given(strategy)
    def test(v):
        wrapped(v)

    try:
        test()
    except OracleViolation:
        ctx.violations.append(last["v"])


# ---------------------------------------------------------------------------
# Known findings


def load_known(prop):
    """known_findings.txt -> {sig: (description, replay path or None)} for prop."""
    out = {}
    path = os.path.join(HOME, "known_findings.txt")
    if not os.path.exists(path):
        return out
    for line in open(path):
        line = line.strip()
        if not line.startswith("known:"):
            continue
        toks = line[len("known:"):].split()
        kv = {}
        rest = []
        for t in toks:
            if "=" in t and t.split("=", 1)[0] in ("property", "sig", "replay"):
                k, v = t.split("=", 1)
                kv[k] = v
            else:
                rest.append(t)
        if kv.get("property") != prop or "sig" not in kv:
            continue
        out[kv["sig"]] = (" ".join(rest), kv.get("replay"))
    return out


# ---------------------------------------------------------------------------


def _worker(args):
    modname, prop, tier, seed, shard, nshards, known = args
    try:
        mod = importlib.import_module(modname)
        ctx = Ctx(prop, tier, seed, shard, nshards, known)
        t0 = time.time()
        try:
            mod.shard(ctx)
        except OracleViolation as e:
            # raised outside a Hypothesis run (enumeration loops): recorded as is
            ctx.violations.append(e.v)
        r = ctx.result()
        r["wall"] = time.time() - t0
        return r
    except BaseException:
        return {"shard": shard, "error": traceback.format_exc()}


def _assert_repo():
    import afkak

    here = os.path.realpath(os.path.dirname(afkak.__file__))
    want = os.path.realpath(os.path.join(REPO, "afkak"))
    if here != want:
        raise HarnessError("afkak imported from %s, expected %s" % (here, want))


def write_violation(prop, v_clause, v_sig, v_detail, case, seed):
    d = os.path.join(OUT, "violations")
    os.makedirs(d, exist_ok=True)
    path = os.path.join(d, "%s-%s.json" % (prop, jsonx.chash([v_sig, case])))
    with open(path, "w") as f:
        json.dump(
            {"property": prop, "clause": v_clause, "signature": v_sig, "detail": v_detail, "seed": seed, "case": case},
            f,
            indent=1,
        )
    return path


def run_replay_file(mod, path, known, prop):
    """Returns list of (clause, sig, detail) reproduced by the saved case."""
    obj = json.load(open(path))
    case = jsonx.dec(obj["case"])
    ctx = Ctx(prop, "quick", 0, 0, 1, known)
    ctx.replaying = True
    ctx.current = case
    try:
        mod.replay(case, ctx)
    except OracleViolation as e:
        return [(e.v.clause, e.v.sig, e.v.detail)], ctx
    return [], ctx


def main(argv):
    if len(argv) < 2:
        print("usage: check <Cxx> quick|thorough | check <Cxx> --replay <file>", file=sys.stderr)
        return 2
    prop = argv[0].upper()
    modname = "checks.%s" % prop.lower()
    t0 = time.time()
    try:
        _assert_repo()
        mod = importlib.import_module(modname)
        if hasattr(mod, "selfcheck"):
            mod.selfcheck()
    except BaseException:
        traceback.print_exc()
        print("HARNESS-ERROR property=%s (import/self-check)" % prop)
        return 2
    knownfull = load_known(prop)
    known = {k: v[0] for k, v in knownfull.items()}

    if argv[1] == "--replay":
        try:
            got, _ = run_replay_file(mod, argv[2], known, prop)
        except BaseException:
            traceback.print_exc()
            return 2
        if not got:
            print("replay %s: no violation" % argv[2])
            return 0
        rc = 0
        for clause, sig, detail in got:
            if sig in known:
                print("KNOWN-FINDING: property=%s %s [%s]" % (prop, known[sig], sig))
            else:
                print("VIOLATION property=%s replay=%s" % (prop, argv[2]))
                print("  clause=%s sig=%s\n  %s" % (clause, sig, detail))
                rc = 1
        return rc

    tier = argv[1]
    if tier not in ("quick", "thorough"):
        print("unknown tier %r" % tier, file=sys.stderr)
        return 2
    tier = os.environ.get("VERIF_TIER", tier) if argv[1] not in ("quick", "thorough") else tier
    seed = int(os.environ.get("VERIF_SEED", "1"))
    nshards = int(os.environ.get("VERIF_SHARDS", getattr(mod, "NSHARDS", 16)))

    unknown = []  # (clause, sig, detail, path)
    known_lines = collections.OrderedDict()
    replayed = 0

    # 1. replay tier: committed minimal cases (regressions and known findings)
    rdir = os.path.join(HOME, "replays")
    if os.path.isdir(rdir):
        for fn in sorted(os.listdir(rdir)):
            if not fn.startswith(prop + "-") or not fn.endswith(".json"):
                continue
            path = os.path.join(rdir, fn)
            try:
                got, _ = run_replay_file(mod, path, known, prop)
            except BaseException:
                traceback.print_exc()
                print("HARNESS-ERROR property=%s replaying %s" % (prop, path))
                return 2
            replayed += 1
            for clause, sig, detail in got:
                if sig in known:
                    known_lines[sig] = known[sig]
                else:
                    unknown.append((clause, sig, detail, os.path.relpath(path, HOME)))

    # 2. fresh generation over shards
    args = [(modname, prop, tier, seed, i, nshards, known) for i in range(nshards)]
    if nshards == 1 or os.environ.get("VERIF_INPROC"):
        results = [_worker(a) for a in args]
    else:
        mpctx = multiprocessing.get_context("fork")
        with mpctx.Pool(min(nshards, os.cpu_count() or 1)) as pool:
            results = pool.map(_worker, args, chunksize=1)

    errors = [r for r in results if "error" in r]
    if errors:
        for r in errors[:3]:
            sys.stderr.write("shard %s failed:\n%s\n" % (r["shard"], r["error"]))
        print("HARNESS-ERROR property=%s (%d shard(s) raised)" % (prop, len(errors)))
        return 2

    evaluations = sum(r["evaluations"] for r in results)
    nontrivial = set()
    labels = collections.Counter()
    samples = []
    known_hits = collections.Counter()
    inconclusive = rejected = 0
    extra = {}
    for r in results:
        nontrivial.update(r["nontrivial"])
        labels.update(r["labels"])
        known_hits.update(r["known_hits"])
        inconclusive += r["inconclusive"]
        rejected += r["rejected"]
        for k, v in r["extra"].items():
            if isinstance(v, (int, float)):
                extra[k] = extra.get(k, 0) + v
            else:
                extra.setdefault(k, v)
        for s in r["samples"]:
            if len(samples) < 5:
                samples.append(s)
        for clause, sig, detail, case in r["violations"]:
            path = write_violation(prop, clause, sig, detail, case, seed)
            unknown.append((clause, sig, detail, os.path.relpath(path, HOME) if OUT == HOME else path))
    for sig in known_hits:
        known_lines.setdefault(sig, known.get(sig, ""))

    wall = time.time() - t0
    lab = {k: round(v / float(max(evaluations, 1)), 4) for k, v in sorted(labels.items())}
    seen = set()
    uniq_unknown = []
    for u in unknown:
        if u[1] in seen:
            continue
        seen.add(u[1])
        uniq_unknown.append(u)
    ev = {
        "property_id": prop,
        "tier": tier,
        "seed": seed,
        "level": getattr(mod, "LEVEL", "exploration"),
        "coverage": {
            "evaluations": evaluations,
            "distinct_nontrivial": len(nontrivial) + int(extra.pop("nt_extra", 0)),
            "rule": mod.RULE,
            "samples": samples,
            "labels": lab,
            "label_counts": dict(sorted(labels.items())),
            "excluded_by_known_finding": sum(known_hits.values()),
            "known_findings_hit": dict(known_hits),
            "inconclusive": inconclusive,
            "rejected_inputs": rejected,
            "replayed_regressions": replayed,
            "shards": nshards,
            "technique": getattr(mod, "TECHNIQUE", "property-based testing"),
        },
        "assumptions": list(getattr(mod, "ASSUMPTIONS", [])),
        "wall_s": round(wall, 2),
        "violations": len(uniq_unknown),
    }
    ev["coverage"].update(extra)
    if hasattr(mod, "EXHAUSTIVE") and tier in mod.EXHAUSTIVE:
        ev["coverage"]["exhaustive_part"] = mod.EXHAUSTIVE[tier]
    os.makedirs(os.path.join(OUT, "evidence"), exist_ok=True)
    evpath = os.path.join(OUT, "evidence", "%s.json" % prop)
    with open(evpath, "w") as f:
        json.dump(ev, f, indent=1, sort_keys=True)

    for sig, desc in known_lines.items():
        print("KNOWN-FINDING: property=%s %s [%s]" % (prop, desc, sig))
    for clause, sig, detail, path in uniq_unknown:
        print("VIOLATION property=%s replay=%s" % (prop, path))
        print("  clause=%s sig=%s\n  %s" % (clause, sig, str(detail)[:2000]))
    print(
        "%s %s seed=%d: %d cases, %d distinct non-trivial, %d known-finding exclusions, %d violations, %.1fs"
        % (prop, tier, seed, evaluations, ev["coverage"]["distinct_nontrivial"], sum(known_hits.values()), len(uniq_unknown), wall)
    )
    if uniq_unknown:
        return 1
    try:
        _validate_evidence(evpath)
    except Exception as e:  # noqa - a run too thin to produce valid evidence is a harness problem, not a pass
        print("HARNESS-ERROR property=%s evidence does not validate: %s" % (prop, str(e).splitlines()[0]))
        return 2
    return 0


def _validate_evidence(path):
    try:
        import jsonschema
    except ImportError:
        return
    sp = "/root/.vp/EVIDENCE.schema.json"
    if not os.path.exists(sp):
        sp = os.path.join(HOME, "vlib", "EVIDENCE.schema.json")
        if not os.path.exists(sp):
            return
    schema = json.load(open(sp))
    jsonschema.validate(json.load(open(path)), schema)
