"""Run afkak's response decoders on arbitrary bytes under a deterministic work
budget (sys.monitoring LINE events inside afkak/, not wall clock) and report
value-or-exception.  Shared by checks/c12.py and fuzz/decoders.py."""
import os
import sys


class WorkBudgetExceeded(BaseException):
    """BaseException so that no `except Exception` in the code under test can swallow it."""


_state = {"n": 0, "limit": 1 << 62, "active": False, "installed": False, "decompressed": 0}

# budget: lines <= A + B * (len(input) + bytes produced by decompression)
A_LINES = 4000
B_LINES = 60
# memory: tracemalloc peak <= C + D * (same)
C_BYTES = 256 * 1024
D_BYTES = 64


# copying: bytes copied out of the input (and out of anything sliced from it) <= E + F * (same); counted with a bytes subclass
# whose slices are counted and are counting themselves, so the measure is deterministic (no wall clock)
E_COPY = 2048
F_COPY = 8


class CountingBytes(bytes):
    __slots__ = ()

    def __getitem__(self, key):
        out = bytes.__getitem__(self, key)
        if isinstance(key, slice):
            _state["copied"] = _state.get("copied", 0) + len(out)
            return CountingBytes(out)
        return out


def copied(idx, data):
    """-> (bytes copied by slicing while decoding `data`, outcome) with outcome = 'value' | exception type name"""
    global _DECS
    install()
    if _DECS is None:
        _DECS = decoders()
    name, fn = _DECS[idx % len(_DECS)]
    st = _state
    st["copied"] = 0
    st["decompressed"] = 0
    st["n"] = 0
    st["limit"] = 1 << 62
    out = "value"
    try:
        fn(CountingBytes(data))
    except Exception as e:  # noqa
        out = type(e).__name__
    return st["copied"], st["decompressed"], out


def install():
    if _state["installed"]:
        return
    import afkak

    adir = os.path.dirname(os.path.abspath(afkak.__file__)) + os.sep
    mon = sys.monitoring
    tool = mon.PROFILER_ID
    try:
        mon.use_tool_id(tool, "verif-work-counter")
    except ValueError:
        tool = mon.DEBUGGER_ID
        mon.use_tool_id(tool, "verif-work-counter")
    st = _state

    def cb(code, line):
        if not code.co_filename.startswith(adir):
            return mon.DISABLE
        if st["active"]:
            st["n"] += 1
            if st["n"] > st["limit"]:
                st["active"] = False
                raise WorkBudgetExceeded(st["n"])

    mon.register_callback(tool, mon.events.LINE, cb)
    mon.set_events(tool, mon.events.LINE)
    # charge decompression output to the budget (a gzip bomb is not a length-field problem)
    import afkak.kafkacodec as kc

    orig = kc.gzip_decode

    def counting_gzip_decode(payload):
        out = orig(payload)
        st["decompressed"] += len(out)
        st["limit"] += B_LINES * len(out)
        if isinstance(payload, CountingBytes) and type(out) is bytes:
            out = CountingBytes(out)
        return out

    kc.gzip_decode = counting_gzip_decode
    st["installed"] = True


def _consume_fetch(gen):
    out = []
    for r in gen:
        out.append((r.topic, r.partition, r.error, r.highwaterMark, [(m.offset, m.message) for m in r.messages]))
    return out


def decoders():
    from afkak.kafkacodec import KafkaCodec as K

    return [
        ("produce_v0", lambda d: list(K.decode_produce_response(d, 0))),
        ("produce_v2", lambda d: list(K.decode_produce_response(d, 2))),
        ("fetch_v0", lambda d: _consume_fetch(K.decode_fetch_response(d, 0))),
        ("fetch_v2", lambda d: _consume_fetch(K.decode_fetch_response(d, 2))),
        ("offsets", lambda d: list(K.decode_offset_response(d))),
        ("metadata", lambda d: K.decode_metadata_response(d)),
        ("find_coordinator", lambda d: K.decode_consumermetadata_response(d)),
        ("offset_commit", lambda d: list(K.decode_offset_commit_response(d))),
        ("offset_fetch", lambda d: list(K.decode_offset_fetch_response(d))),
        ("join_group", lambda d: K.decode_join_group_response(d)),
        ("sync_group", lambda d: K.decode_sync_group_response(d)),
        ("heartbeat", lambda d: K.decode_heartbeat_response(d)),
        ("leave_group", lambda d: K.decode_leave_group_response(d)),
        ("api_versions", lambda d: K.decode_api_versions_response(d)),
        ("subscription", lambda d: K.decode_join_group_protocol_metadata(d)),
        ("assignment", lambda d: K.decode_sync_group_member_assignment(d)),
        ("message_set", lambda d: [(m.offset, m.message) for m in K._decode_message_set_iter(d)]),
    ]


_DECS = None


def run(idx, data, measure_memory=False):
    """-> dict(status='value'|'exception'|'work'|'memory', work=lines, limit=..., exc=type name, peak=bytes)"""
    global _DECS
    install()
    if _DECS is None:
        _DECS = decoders()
    name, fn = _DECS[idx % len(_DECS)]
    st = _state
    st["n"] = 0
    st["decompressed"] = 0
    st["limit"] = A_LINES + B_LINES * len(data)
    res = {"decoder": name, "status": "value", "exc": None, "peak": 0}
    if measure_memory:
        import tracemalloc

        tracemalloc.start()
    st["active"] = True
    try:
        fn(data)
    except WorkBudgetExceeded:
        res["status"] = "work"
    except Exception as e:  # noqa - "terminates with a value or an exception"
        res["status"] = "exception"
        res["exc"] = type(e).__name__
    finally:
        st["active"] = False
        if measure_memory:
            import tracemalloc

            res["peak"] = tracemalloc.get_traced_memory()[1]
            tracemalloc.stop()
    res["work"] = st["n"]
    res["limit"] = st["limit"]
    res["decompressed"] = st["decompressed"]
    if measure_memory and res["status"] != "work":
        if res["peak"] > C_BYTES + D_BYTES * (len(data) + st["decompressed"]):
            res["status"] = "memory"
    return res
