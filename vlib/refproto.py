"""refproto - an independent implementation of the slice of the Kafka wire
protocol that afkak speaks.  Written from the Kafka protocol guide
(https://kafka.apache.org/protocol) and KIP-31/KIP-32; imports nothing from
afkak.  Used as the oracle for the codec properties and as the wire layer of
the simulated cluster.

Requests are parsed STRICTLY: every array count >= 0, every string/bytes length
within the frame, nullability only where the schema allows it, and the whole
frame consumed.  Anything else raises GrammarError.
"""
import binascii
import struct
import zlib

PRODUCE, FETCH, LIST_OFFSETS, METADATA = 0, 1, 2, 3
OFFSET_COMMIT, OFFSET_FETCH, FIND_COORDINATOR = 8, 9, 10
JOIN_GROUP, HEARTBEAT, LEAVE_GROUP, SYNC_GROUP = 11, 12, 13, 14
API_VERSIONS = 18

API_NAMES = {
    0: "produce", 1: "fetch", 2: "list_offsets", 3: "metadata", 8: "offset_commit", 9: "offset_fetch",
    10: "find_coordinator", 11: "join_group", 12: "heartbeat", 13: "leave_group", 14: "sync_group", 18: "api_versions",
}

# versions of each API that afkak claims to implement
SUPPORTED = {
    PRODUCE: (0, 1, 2), FETCH: (0, 1, 2), LIST_OFFSETS: (0,), METADATA: (0,), OFFSET_COMMIT: (1,),
    OFFSET_FETCH: (1,), FIND_COORDINATOR: (0,), JOIN_GROUP: (0,), HEARTBEAT: (0,), LEAVE_GROUP: (0,),
    SYNC_GROUP: (0,), API_VERSIONS: (0,),
}

CODEC_NONE, CODEC_GZIP, CODEC_SNAPPY, CODEC_LZ4 = 0, 1, 2, 3


class GrammarError(Exception):
    pass


# ---------------------------------------------------------------------------
# primitives


class Reader(object):
    def __init__(self, data, what="frame"):
        self.d = bytes(data)
        self.p = 0
        self.what = what

    def _take(self, n, what):
        if n < 0 or self.p + n > len(self.d):
            raise GrammarError("%s: need %d bytes for %s at offset %d, %d available" % (self.what, n, what, self.p, len(self.d) - self.p))
        b = self.d[self.p : self.p + n]
        self.p += n
        return b

    def i8(self, what="int8"):
        return struct.unpack(">b", self._take(1, what))[0]

    def i16(self, what="int16"):
        return struct.unpack(">h", self._take(2, what))[0]

    def i32(self, what="int32"):
        return struct.unpack(">i", self._take(4, what))[0]

    def u32(self, what="uint32"):
        return struct.unpack(">I", self._take(4, what))[0]

    def i64(self, what="int64"):
        return struct.unpack(">q", self._take(8, what))[0]

    def string(self, what="string", nullable=False):
        n = self.i16(what + " length")
        if n == -1:
            if nullable:
                return None
            raise GrammarError("%s: null %s where the schema requires a value" % (self.what, what))
        if n < 0:
            raise GrammarError("%s: negative length %d for %s" % (self.what, n, what))
        return self._take(n, what)

    def text(self, what="string", nullable=False):
        b = self.string(what, nullable)
        if b is None:
            return None
        try:
            return b.decode("utf-8")
        except UnicodeDecodeError:
            raise GrammarError("%s: %s is not valid UTF-8: %r" % (self.what, what, b))

    def bytes_(self, what="bytes", nullable=False):
        n = self.i32(what + " length")
        if n == -1:
            if nullable:
                return None
            raise GrammarError("%s: null %s where the schema requires a value" % (self.what, what))
        if n < 0:
            raise GrammarError("%s: negative length %d for %s" % (self.what, n, what))
        return self._take(n, what)

    def count(self, what="array"):
        n = self.i32(what + " count")
        if n < 0:
            raise GrammarError("%s: negative element count %d for %s" % (self.what, n, what))
        if n > len(self.d) - self.p:
            raise GrammarError("%s: element count %d for %s exceeds remaining bytes" % (self.what, n, what))
        return n

    def done(self):
        if self.p != len(self.d):
            raise GrammarError("%s: %d trailing byte(s) after the last field: %r" % (self.what, len(self.d) - self.p, self.d[self.p : self.p + 16]))

    def remaining(self):
        return len(self.d) - self.p


def w_i8(v):
    return struct.pack(">b", v)


def w_i16(v):
    return struct.pack(">h", v)


def w_i32(v):
    return struct.pack(">i", v)


def w_i64(v):
    return struct.pack(">q", v)


def w_string(s):
    if s is None:
        return w_i16(-1)
    if isinstance(s, str):
        s = s.encode("utf-8")
    return w_i16(len(s)) + s


def w_bytes(b):
    if b is None:
        return w_i32(-1)
    return w_i32(len(b)) + bytes(b)


def w_array(items, fn):
    return w_i32(len(items)) + b"".join(fn(x) for x in items)


# ---------------------------------------------------------------------------
# message sets (message format 0 and 1)


def crc32(b):
    return binascii.crc32(b) & 0xFFFFFFFF


def gzip_compress(b):
    c = zlib.compressobj(6, zlib.DEFLATED, 31)
    return c.compress(b) + c.flush()


def gzip_decompress(b, limit=64 * 1024 * 1024):
    d = zlib.decompressobj(47)
    out = d.decompress(b, limit)
    if d.unconsumed_tail:
        raise GrammarError("decompressed wrapper exceeds %d bytes" % limit)
    if not d.eof:
        raise GrammarError("truncated gzip stream in wrapper message")
    return out


def encode_message(magic, attributes, key, value, timestamp=None):
    """One message (without the offset/size prefix)."""
    if magic == 0:
        body = struct.pack(">bb", magic, attributes) + w_bytes(key) + w_bytes(value)
    elif magic == 1:
        body = struct.pack(">bbq", magic, attributes, timestamp if timestamp is not None else -1) + w_bytes(key) + w_bytes(value)
    else:
        raise ValueError("magic %r" % (magic,))
    return struct.pack(">I", crc32(body)) + body


def encode_entry(offset, msg_bytes):
    return struct.pack(">qi", offset, len(msg_bytes)) + msg_bytes


def encode_message_set(entries):
    """entries: list of record dicts
         {"offset", "magic", "attributes", "key", "value", "timestamp"}            plain message
         {"offset", "magic", "attributes" (codec bits), "timestamp", "inner": [...]} wrapper; inner entries carry
                                                                                  the offsets to WRITE inside the wrapper
    """
    out = []
    for e in entries:
        if e.get("inner") is not None:
            codec = e["attributes"] & 0x03
            payload = encode_message_set(e["inner"])
            if codec == CODEC_GZIP:
                value = gzip_compress(payload)
            else:
                raise ValueError("codec %d not available in refproto" % codec)
            m = encode_message(e["magic"], e["attributes"], e.get("key"), value, e.get("timestamp"))
        else:
            m = encode_message(e["magic"], e["attributes"], e.get("key"), e.get("value"), e.get("timestamp"))
        out.append(encode_entry(e["offset"], m))
    return b"".join(out)


def parse_message(data, what="message", depth=0):
    r = Reader(data, what)
    crc = r.u32("crc")
    if crc32(data[4:]) != crc:
        raise GrammarError("%s: CRC mismatch (header %08x, computed %08x)" % (what, crc, crc32(data[4:])))
    magic = r.i8("magic")
    attributes = r.i8("attributes")
    if magic not in (0, 1):
        raise GrammarError("%s: unsupported magic %d" % (what, magic))
    ts = None
    if magic == 1:
        ts = r.i64("timestamp")
    key = r.bytes_("key", nullable=True)
    value = r.bytes_("value", nullable=True)
    r.done()
    rec = {"magic": magic, "attributes": attributes, "key": key, "value": value, "timestamp": ts, "inner": None}
    codec = attributes & 0x07
    if codec != CODEC_NONE:
        if depth >= 2:
            raise GrammarError("%s: wrapper nesting deeper than 2" % what)
        if value is None:
            raise GrammarError("%s: compressed wrapper with null value" % what)
        if codec == CODEC_GZIP:
            try:
                payload = gzip_decompress(value)
            except zlib.error as e:
                raise GrammarError("%s: bad gzip payload: %s" % (what, e))
        else:
            raise GrammarError("%s: codec %d not supported by refproto" % (what, codec))
        rec["inner"] = parse_message_set(payload, what + " inner set", depth + 1, allow_partial=False)
        for x in rec["inner"]:
            # Kafka's log validator: "Compressed message magic does not match wrapper magic"
            if x["magic"] != magic:
                raise GrammarError("%s: inner message magic %d does not match wrapper magic %d" % (what, x["magic"], magic))
    return rec


def parse_message_set(data, what="message set", depth=0, allow_partial=False):
    """Strict: every entry complete (unless allow_partial, as in fetch
    responses where the broker may cut the last one short)."""
    r = Reader(data, what)
    out = []
    while r.remaining() > 0:
        if allow_partial and r.remaining() < 12:
            break
        off = r.i64("offset")
        size = r.i32("message size")
        if size < 0:
            raise GrammarError("%s: negative message size %d" % (what, size))
        if allow_partial and size > r.remaining():
            break
        if size < 14:
            raise GrammarError("%s: message size %d smaller than the minimum header" % (what, size))
        m = r._take(size, "message")
        rec = parse_message(m, what + " entry@%d" % off, depth)
        rec["offset"] = off
        out.append(rec)
    return out


def flatten(entries, kip31=True):
    """Logical record sequence [(absolute offset, magic, attributes, key, value, timestamp)] of a parsed / modelled
    message set, applying the protocol's offset rule for wrappers: magic 0 inner offsets are absolute; magic 1 inner
    offsets are relative and absolute_i = wrapper_offset - inner_last + inner_i (KIP-31)."""
    out = []
    for e in entries:
        if e.get("inner") is None:
            out.append((e["offset"], e["magic"], e["attributes"], e["key"], e["value"], e["timestamp"]))
        else:
            inner = flatten(e["inner"], kip31)
            if e["magic"] == 1 and kip31 and inner:
                base = e["offset"] - inner[-1][0]
                inner = [(base + x[0],) + tuple(x[1:]) for x in inner]
            out.extend(inner)
    return out


# ---------------------------------------------------------------------------
# requests: strict parsers


def parse_request(frame):
    """frame: request bytes without the 4-byte size prefix -> dict."""
    r = Reader(frame, "request")
    api_key = r.i16("api_key")
    api_version = r.i16("api_version")
    corr = r.i32("correlation_id")
    client_id = r.string("client_id", nullable=True)
    name = API_NAMES.get(api_key)
    if name is None:
        raise GrammarError("request: unknown api_key %d" % api_key)
    if api_version not in SUPPORTED[api_key]:
        raise GrammarError("request: %s version %d is not one afkak implements %r" % (name, api_version, SUPPORTED[api_key]))
    r.what = "%s v%d request" % (name, api_version)
    req = {"api_key": api_key, "api": name, "api_version": api_version, "correlation_id": corr, "client_id": client_id}
    req.update(_BODY_PARSERS[api_key](r, api_version))
    r.done()
    return req


def _topics(r, fn, what):
    seen = set()
    out = []
    for _ in range(r.count(what + " topics")):
        topic = r.text("topic")
        if not topic:
            raise GrammarError("%s: empty topic name" % r.what)
        parts = []
        pseen = set()
        for _ in range(r.count("partitions")):
            p = fn(r)
            if p["partition"] in pseen:
                raise GrammarError("%s: partition %d of %r listed twice" % (r.what, p["partition"], topic))
            pseen.add(p["partition"])
            parts.append(p)
        if topic in seen:
            raise GrammarError("%s: topic %r listed twice" % (r.what, topic))
        seen.add(topic)
        out.append({"topic": topic, "partitions": parts})
    return out


def _p_produce(r, v):
    acks = r.i16("acks")
    timeout = r.i32("timeout")

    def part(r):
        p = r.i32("partition")
        ms = r.bytes_("message set")
        recs = parse_message_set(ms, r.what + " message set")
        want_magic = 1 if v >= 2 else 0
        for rec in recs:
            if rec["magic"] > want_magic:
                raise GrammarError("%s: message with magic %d in a v%d produce request (max magic %d)" % (r.what, rec["magic"], v, want_magic))
        return {"partition": p, "records": recs, "raw": ms}

    return {"acks": acks, "timeout": timeout, "topics": _topics(r, part, "produce")}


def _p_fetch(r, v):
    replica = r.i32("replica_id")
    max_wait = r.i32("max_wait_time")
    min_bytes = r.i32("min_bytes")

    def part(r):
        return {"partition": r.i32("partition"), "offset": r.i64("fetch_offset"), "max_bytes": r.i32("max_bytes")}

    return {"replica_id": replica, "max_wait": max_wait, "min_bytes": min_bytes, "topics": _topics(r, part, "fetch")}


def _p_list_offsets(r, v):
    replica = r.i32("replica_id")

    def part(r):
        return {"partition": r.i32("partition"), "time": r.i64("time"), "max_offsets": r.i32("max_num_offsets")}

    return {"replica_id": replica, "topics": _topics(r, part, "list_offsets")}


def _p_metadata(r, v):
    topics = []
    for _ in range(r.count("topics")):
        t = r.text("topic")
        if not t:
            raise GrammarError("%s: empty topic name" % r.what)
        topics.append(t)
    return {"topics": topics}


def _p_offset_commit(r, v):
    group = r.text("group")
    gen = r.i32("generation")
    member = r.text("member_id")

    def part(r):
        return {
            "partition": r.i32("partition"),
            "offset": r.i64("offset"),
            "timestamp": r.i64("timestamp"),
            "metadata": r.string("metadata", nullable=True),
        }

    return {"group": group, "generation": gen, "member_id": member, "topics": _topics(r, part, "offset_commit")}


def _p_offset_fetch(r, v):
    group = r.text("group")

    def part(r):
        return {"partition": r.i32("partition")}

    return {"group": group, "topics": _topics(r, part, "offset_fetch")}


def _p_find_coordinator(r, v):
    return {"group": r.text("group")}


def _p_join_group(r, v):
    group = r.text("group")
    session_timeout = r.i32("session_timeout")
    member = r.text("member_id")
    ptype = r.text("protocol_type")
    protos = []
    for _ in range(r.count("group_protocols")):
        protos.append({"name": r.text("protocol_name"), "metadata": r.bytes_("protocol_metadata")})
    return {"group": group, "session_timeout": session_timeout, "member_id": member, "protocol_type": ptype, "protocols": protos}


def _p_sync_group(r, v):
    group = r.text("group")
    gen = r.i32("generation")
    member = r.text("member_id")
    assignments = []
    for _ in range(r.count("group_assignment")):
        assignments.append({"member_id": r.text("member_id"), "assignment": r.bytes_("member_assignment")})
    return {"group": group, "generation": gen, "member_id": member, "assignments": assignments}


def _p_heartbeat(r, v):
    return {"group": r.text("group"), "generation": r.i32("generation"), "member_id": r.text("member_id")}


def _p_leave_group(r, v):
    return {"group": r.text("group"), "member_id": r.text("member_id")}


def _p_api_versions(r, v):
    return {}


_BODY_PARSERS = {
    PRODUCE: _p_produce, FETCH: _p_fetch, LIST_OFFSETS: _p_list_offsets, METADATA: _p_metadata,
    OFFSET_COMMIT: _p_offset_commit, OFFSET_FETCH: _p_offset_fetch, FIND_COORDINATOR: _p_find_coordinator,
    JOIN_GROUP: _p_join_group, SYNC_GROUP: _p_sync_group, HEARTBEAT: _p_heartbeat, LEAVE_GROUP: _p_leave_group,
    API_VERSIONS: _p_api_versions,
}


def request_header_peek(frame):
    """(api_key, api_version, correlation_id) without validation (for replies to garbage)."""
    if len(frame) < 8:
        raise GrammarError("request shorter than its fixed header")
    return struct.unpack(">hhi", frame[:8])


# ---------------------------------------------------------------------------
# responses: encoders (correlation id + versioned body)


def r_produce(corr, topics, version=0, throttle=0):
    """topics: [(topic, [(partition, error, offset[, log_append_time])])]"""

    def part(p):
        b = w_i32(p[0]) + w_i16(p[1]) + w_i64(p[2])
        if version >= 2:
            b += w_i64(p[3] if len(p) > 3 else -1)
        return b

    out = w_i32(corr) + w_array(topics, lambda t: w_string(t[0]) + w_array(t[1], part))
    if version >= 1:
        out += w_i32(throttle)
    return out


def r_fetch(corr, topics, version=0, throttle=0):
    """topics: [(topic, [(partition, error, highwater, message_set_bytes)])]"""
    out = w_i32(corr)
    if version >= 1:
        out += w_i32(throttle)
    out += w_array(
        topics,
        lambda t: w_string(t[0]) + w_array(t[1], lambda p: w_i32(p[0]) + w_i16(p[1]) + w_i64(p[2]) + w_bytes(p[3])),
    )
    return out


def r_list_offsets(corr, topics):
    """topics: [(topic, [(partition, error, [offsets])])]"""
    return w_i32(corr) + w_array(
        topics,
        lambda t: w_string(t[0]) + w_array(t[1], lambda p: w_i32(p[0]) + w_i16(p[1]) + w_array(p[2], w_i64)),
    )


def r_metadata(corr, brokers, topics):
    """brokers: [(node, host, port)]; topics: [(error, name, [(perr, pid, leader, [replicas], [isr])])]"""
    return (
        w_i32(corr)
        + w_array(brokers, lambda b: w_i32(b[0]) + w_string(b[1]) + w_i32(b[2]))
        + w_array(
            topics,
            lambda t: w_i16(t[0])
            + w_string(t[1])
            + w_array(t[2], lambda p: w_i16(p[0]) + w_i32(p[1]) + w_i32(p[2]) + w_array(p[3], w_i32) + w_array(p[4], w_i32)),
        )
    )


def r_offset_commit(corr, topics):
    """topics: [(topic, [(partition, error)])]"""
    return w_i32(corr) + w_array(topics, lambda t: w_string(t[0]) + w_array(t[1], lambda p: w_i32(p[0]) + w_i16(p[1])))


def r_offset_fetch(corr, topics):
    """topics: [(topic, [(partition, offset, metadata, error)])]"""
    return w_i32(corr) + w_array(
        topics,
        lambda t: w_string(t[0]) + w_array(t[1], lambda p: w_i32(p[0]) + w_i64(p[1]) + w_string(p[2]) + w_i16(p[3])),
    )


def r_find_coordinator(corr, error, node, host, port):
    return w_i32(corr) + w_i16(error) + w_i32(node) + w_string(host) + w_i32(port)


def r_join_group(corr, error, generation, protocol, leader, member, members):
    """members: [(member_id, metadata bytes)]"""
    return (
        w_i32(corr) + w_i16(error) + w_i32(generation) + w_string(protocol) + w_string(leader) + w_string(member)
        + w_array(members, lambda m: w_string(m[0]) + w_bytes(m[1]))
    )


def r_sync_group(corr, error, assignment):
    return w_i32(corr) + w_i16(error) + w_bytes(assignment)


def r_heartbeat(corr, error):
    return w_i32(corr) + w_i16(error)


def r_leave_group(corr, error):
    return w_i32(corr) + w_i16(error)


def r_api_versions(corr, error, versions):
    """versions: [(api_key, min, max)]"""
    return w_i32(corr) + w_i16(error) + w_array(versions, lambda v: w_i16(v[0]) + w_i16(v[1]) + w_i16(v[2]))


# ---------------------------------------------------------------------------
# consumer embedded protocol


def encode_subscription(topics, user_data=b"", version=0):
    return w_i16(version) + w_array(topics, w_string) + w_bytes(user_data)


def parse_subscription(data):
    r = Reader(data, "consumer subscription")
    version = r.i16("version")
    topics = [r.text("topic") for _ in range(r.count("topics"))]
    user_data = r.bytes_("user_data", nullable=True)
    r.done()
    return {"version": version, "topics": topics, "user_data": user_data}


def encode_assignment(assignment, user_data=b"", version=0):
    """assignment: [(topic, [partitions])]"""
    return w_i16(version) + w_array(assignment, lambda t: w_string(t[0]) + w_array(t[1], w_i32)) + w_bytes(user_data)


def parse_assignment(data):
    r = Reader(data, "consumer assignment")
    version = r.i16("version")
    out = []
    for _ in range(r.count("topics")):
        t = r.text("topic")
        out.append((t, [r.i32("partition") for _ in range(r.count("partitions"))]))
    user_data = r.bytes_("user_data", nullable=True)
    r.done()
    return {"version": version, "assignment": out, "user_data": user_data}


# ---------------------------------------------------------------------------
# self check: round trips and golden vectors written by hand by the repository's authors
# (afkak/test/test_kafkacodec.py), transcribed here - not produced by afkak at run time.


def selfcheck():
    # message set round trip in both magics, with a gzip wrapper
    inner0 = [
        {"offset": 5, "magic": 0, "attributes": 0, "key": None, "value": b"a", "timestamp": None},
        {"offset": 9, "magic": 0, "attributes": 0, "key": b"", "value": None, "timestamp": None},
    ]
    inner1 = [
        {"offset": 0, "magic": 1, "attributes": 0, "key": b"k", "value": b"", "timestamp": 7},
        {"offset": 2, "magic": 1, "attributes": 0, "key": None, "value": b"zz", "timestamp": -1},
    ]
    ms = [
        {"offset": 3, "magic": 0, "attributes": 0, "key": b"k", "value": b"v", "timestamp": None},
        {"offset": 9, "magic": 0, "attributes": 1, "key": None, "timestamp": None, "inner": inner0},
        {"offset": 42, "magic": 1, "attributes": 1, "key": None, "timestamp": 99, "inner": inner1},
    ]
    raw = encode_message_set(ms)
    back = parse_message_set(raw)
    flat = flatten(back)
    want = [
        (3, 0, 0, b"k", b"v", None),
        (5, 0, 0, None, b"a", None),
        (9, 0, 0, b"", None, None),
        (40, 1, 0, b"k", b"", 7),
        (42, 1, 0, None, b"zz", -1),
    ]
    assert flat == want, flat
    # golden request: test_encode_fetch_request's header + body layout (hand written in the repo's test)
    golden = b"".join(
        [
            struct.pack(">h", 1), struct.pack(">h", 0), struct.pack(">i", 3), struct.pack(">h", 7), b"client1",
            struct.pack(">i", -1), struct.pack(">i", 2), struct.pack(">i", 100), struct.pack(">i", 1),
            struct.pack(">h", 6), b"topic1", struct.pack(">i", 1), struct.pack(">i", 0), struct.pack(">q", 10), struct.pack(">i", 1024),
        ]
    )
    req = parse_request(golden)
    assert req["api"] == "fetch" and req["correlation_id"] == 3 and req["client_id"] == b"client1"
    assert req["topics"] == [{"topic": "topic1", "partitions": [{"partition": 0, "offset": 10, "max_bytes": 1024}]}], req
    # golden message: test_encode_message (hand written): crc, magic 0, attr 0, key "key", value "test"
    gm = b"".join([struct.pack(">i", -1427009701), struct.pack(">bb", 0, 0), struct.pack(">i", 3), b"key", struct.pack(">i", 4), b"test"])
    assert encode_message(0, 0, b"key", b"test") == gm
    # trailing bytes and negative counts are rejected
    for bad in (golden + b"\0", golden[:-1]):
        try:
            parse_request(bad)
        except GrammarError:
            pass
        else:
            raise AssertionError("strict parser accepted a malformed frame")
    sub = encode_subscription(["a", "b"], b"x")
    assert parse_subscription(sub) == {"version": 0, "topics": ["a", "b"], "user_data": b"x"}
    asg = encode_assignment([("t", [0, 2])], None)
    assert parse_assignment(asg) == {"version": 0, "assignment": [("t", [0, 2])], "user_data": None}
