import sys

from .runner import main

if __name__ == "__main__":
    sys.exit(main(sys.argv[1:]))
