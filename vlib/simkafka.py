"""simkafka - a model of a small Kafka cluster behind simnet: brokers, topics,
partition logs (batches, wrappers, both message formats, compaction gaps,
retention), offset store, group coordinator, ApiVersions; plus fault knobs.
Requests are parsed by refproto's STRICT parsers; a frame that does not parse
is recorded in cluster.grammar_errors (property C04) and the connection is
dropped.  The model is the ground truth the oracles quote: what was
acknowledged, what is in the log, which generation is current."""
import struct

from . import refproto as rp

E_NONE, E_OFFSET_OUT_OF_RANGE, E_UNKNOWN_TOPIC_OR_PARTITION = 0, 1, 3
E_LEADER_NOT_AVAILABLE, E_NOT_LEADER, E_REQUEST_TIMED_OUT = 5, 6, 7
E_COORD_LOADING, E_COORD_NOT_AVAILABLE, E_NOT_COORDINATOR = 14, 15, 16
E_ILLEGAL_GENERATION, E_INCONSISTENT_PROTOCOL, E_INVALID_GROUP_ID = 22, 23, 24
E_UNKNOWN_MEMBER, E_INVALID_SESSION_TIMEOUT, E_REBALANCE_IN_PROGRESS = 25, 26, 27

DEFAULT_API_VERSIONS = [(0, 0, 2), (1, 0, 2), (2, 0, 0), (3, 0, 1), (8, 0, 2), (9, 0, 1), (10, 0, 0), (11, 0, 0), (12, 0, 0), (13, 0, 0),
                        (14, 0, 0), (15, 0, 0), (16, 0, 0), (17, 0, 0), (18, 0, 0)]


class Broker(object):
    def __init__(self, node, host, port):
        self.node = node
        self.host = host
        self.port = port
        self.up = True
        self.listed = True  # False: decommissioned - still running and reachable, but no longer part of the cluster metadata


class Batch(object):
    """What one produce payload entry became in the log: either a single plain record or the inner records of a
    compressed wrapper (kept together: a fetch returns a wrapper whole)."""

    def __init__(self, records, wrapper, codec=0):
        self.records = records  # [{"offset", "key", "value", "timestamp"}], offsets strictly increasing
        self.wrapper = wrapper
        self.codec = codec

    @property
    def base(self):
        return self.records[0]["offset"]

    @property
    def last(self):
        return self.records[-1]["offset"]


class Partition(object):
    def __init__(self, topic, pid, leader, replicas, magic=0):
        self.topic = topic
        self.pid = pid
        self.leader = leader
        self.replicas = list(replicas)
        self.isr = list(replicas)
        self.magic = magic
        self.log_start = 0
        self.next_offset = 0
        self.batches = []

    @property
    def log_end(self):
        return self.next_offset

    def records(self):
        return [r for b in self.batches for r in b.records if r["offset"] >= self.log_start]

    def append(self, recs, wrapper, codec=0, gap=0, inner_gaps=None):
        """recs: [(key, value, timestamp)] -> Batch with broker-assigned offsets"""
        self.next_offset += gap
        out = []
        for i, (k, v, ts) in enumerate(recs):
            if inner_gaps and i:
                self.next_offset += inner_gaps[i % len(inner_gaps)]
            out.append({"offset": self.next_offset, "key": k, "value": v, "timestamp": ts})
            self.next_offset += 1
        b = Batch(out, wrapper, codec)
        self.batches.append(b)
        return b

    def serialise(self, from_offset, magic):
        """Message-set bytes of every batch from the one containing from_offset on (wrappers whole)."""
        entries = []
        for b in self.batches:
            if b.last < from_offset or b.last < self.log_start:
                continue
            m = min(magic, self.magic)
            if b.wrapper:
                if m == 0:
                    inner = [{"offset": r["offset"], "magic": 0, "attributes": 0, "key": r["key"], "value": r["value"], "timestamp": None} for r in b.records]
                else:
                    base = b.records[0]["offset"]
                    inner = [{"offset": r["offset"] - base, "magic": 1, "attributes": 0, "key": r["key"], "value": r["value"],
                              "timestamp": r["timestamp"] if r["timestamp"] is not None else -1} for r in b.records]
                entries.append({"offset": b.last, "magic": m, "attributes": b.codec or 1, "key": None,
                                "timestamp": (b.records[-1]["timestamp"] if b.records[-1]["timestamp"] is not None else -1) if m else None, "inner": inner})
            else:
                for r in b.records:
                    if r["offset"] < from_offset:
                        continue
                    entries.append({"offset": r["offset"], "magic": m, "attributes": 0, "key": r["key"], "value": r["value"],
                                    "timestamp": (r["timestamp"] if r["timestamp"] is not None else -1) if m else None})
        return rp.encode_message_set(entries)


class BrokerPeer(object):
    def __init__(self, cluster, node):
        self.cluster = cluster
        self.node = node

    def accepting(self, host, port):
        b = self.cluster.brokers.get(self.node)
        return b is not None and b.up and (b.host, b.port) == (host, port) and not self.cluster.refusing.get(self.node)

    def refuses_synchronously(self, host, port):
        return self.cluster.refusing.get(self.node) == "sync"

    def on_connect(self, conn):
        conn.userdata["node"] = self.node

    def on_frame(self, conn, frame):
        self.cluster.handle(self.node, conn, frame)


class Cluster(object):
    def __init__(self, world, nbrokers=1, api_versions=DEFAULT_API_VERSIONS):
        self.world = world
        self.brokers = {}
        self.topics = {}  # name -> {pid: Partition}
        self.topic_errors = {}
        self.offsets = {}  # (group, topic, pid) -> (offset, metadata)
        self.coordinators = {}  # group -> node
        self.groups = {}
        self.api_versions = api_versions  # list | "close" | "silent" | ("error", code)
        self.refusing = {}
        self.overrides = []  # {"node", "api", "code", "times", "topic", "pid"}
        self.holds = []  # {"node", "api", "times"}
        self.held = []  # [(conn, bytes, info)]
        self.requests = []  # every parsed request: dict(step, time, node, conn, req, seq)
        self.grammar_errors = []
        self.field_errors = []  # header fields that differ from what the client was configured with (C04)
        self.acks = []  # produce ledger
        self.commit_log = []  # offset commit ledger
        self.metadata_replies = []  # (step, time, conn cid, end position, brokers, topics)
        self.replies = []  # every reply: dict(conn, end, api, corr, step)
        self.parked = []  # long-polling fetches
        self._seq = 0
        for i in range(nbrokers):
            self.add_broker(i + 1, "kafka%d.example" % (i + 1), 9092)

    # ------------------------------------------------------------------ topology
    def add_broker(self, node, host, port):
        b = Broker(node, host, port)
        self.brokers[node] = b
        self.world.listeners[(host, port)] = BrokerPeer(self, node)
        return b

    def add_topic(self, name, nparts, leaders=None, magic=0):
        nodes = sorted(self.brokers)
        self.topics[name] = {}
        for p in range(nparts):
            leader = leaders[p] if leaders else nodes[p % len(nodes)]
            self.topics[name][p] = Partition(name, p, leader, [n for n in nodes][:3] or [leader], magic)
        return self.topics[name]

    def conns_of(self, node):
        return [c for c in self.world.conns if c.userdata.get("node") == node and not c.dropped and not c.lost_delivered]

    def broker_down(self, node):
        b = self.brokers[node]
        b.up = False
        for c in self.conns_of(node):
            c.drop()
        for parts in self.topics.values():
            for p in parts.values():
                if p.leader == node:
                    p.leader = -1
        self.parked = [k for k in self.parked if k["node"] != node]

    def broker_up(self, node, addr=None):
        b = self.brokers[node]
        if addr is not None and (b.host, b.port) != tuple(addr):
            self.world.listeners.pop((b.host, b.port), None)
            b.host, b.port = addr
            self.world.listeners[(b.host, b.port)] = BrokerPeer(self, node)
        b.up = True

    def decommission(self, node):
        """the broker leaves the cluster metadata but keeps running (its open connections stay up)"""
        self.brokers[node].listed = False
        for parts in self.topics.values():
            for p in parts.values():
                if p.leader == node:
                    p.leader = -1

    def coordinator_of(self, group):
        if group in self.coordinators and self.brokers[self.coordinators[group]].listed:
            return self.coordinators[group]
        ups = sorted(n for n, b in self.brokers.items() if b.up and b.listed)
        return ups[0] if ups else -1

    # ------------------------------------------------------------------ faults
    def override(self, node, api, code, times=1, topic=None, pid=None):
        self.overrides.append({"node": node, "api": api, "code": code, "times": times, "topic": topic, "pid": pid})

    def _take_override(self, node, api, topic=None, pid=None):
        for o in self.overrides:
            if o["times"] <= 0:
                continue
            if o["node"] not in (None, node) or o["api"] != api:
                continue
            if o["topic"] is not None and o["topic"] != topic:
                continue
            if o["pid"] is not None and o["pid"] != pid:
                continue
            o["times"] -= 1
            return o["code"]
        return None

    def hold(self, node, api, times=1):
        self.holds.append({"node": node, "api": api, "times": times})

    def _take_hold(self, node, api):
        for h in self.holds:
            if h["times"] > 0 and h["node"] in (None, node) and h["api"] == api:
                h["times"] -= 1
                return True
        return False

    def release(self, j):
        if not self.held:
            return False
        conn, data, info = self.held.pop(j % len(self.held))
        self._send(conn, data, info)
        return True

    # ------------------------------------------------------------------ wire
    def _send(self, conn, payload, info):
        if conn.dropped or conn.client_closed:
            info["lost"] = True
            return
        conn.send_frame(payload)
        conn.userdata["sent_total"] = conn.userdata.get("sent_total", 0) + 4 + len(payload)
        info["conn"] = conn
        info["end"] = conn.userdata["sent_total"]
        info["sent_step"] = self.world.step_no
        info["sent_time"] = self.world.now
        self.replies.append(info)

    @staticmethod
    def delivered(info):
        """Was this reply completely handed to the client?"""
        c = info.get("conn")
        return c is not None and len(c.delivered) >= info["end"]

    def handle(self, node, conn, frame):
        w = self.world
        try:
            req = rp.parse_request(frame)
        except rp.GrammarError as e:
            self.grammar_errors.append({"step": w.step_no, "node": node, "error": str(e), "frame": frame[:64]})
            conn.drop()
            return
        exp = getattr(self, "expect_client_id", None)
        if exp is not None and req["client_id"] != exp and len(self.field_errors) < 5:
            self.field_errors.append("%s request header carries client id %r, the client was configured with %r" % (req["api"], req["client_id"], exp))
        self._seq += 1
        rec = {"seq": self._seq, "step": w.step_no, "time": w.now, "node": node, "conn": conn, "req": req}
        self.requests.append(rec)
        api = req["api"]
        corr = req["correlation_id"]
        info = {"api": api, "corr": corr, "req_seq": rec["seq"], "node": node}
        rec["reply"] = info
        handler = getattr(self, "h_" + api)
        out = handler(node, conn, req, rec, info)
        if out is None:
            return
        if self._take_hold(node, api):
            info["held"] = True
            self.held.append((conn, out, info))
            return
        self._send(conn, out, info)

    # ------------------------------------------------------------------ APIs
    def h_api_versions(self, node, conn, req, rec, info):
        av = self.api_versions
        code = self._take_override(node, "api_versions")
        if av == "close":
            conn.drop()
            return None
        if av == "silent":
            return None
        if code is not None:
            return rp.r_api_versions(req["correlation_id"], code, [])
        if isinstance(av, tuple) and av[0] == "error":
            return rp.r_api_versions(req["correlation_id"], av[1], [])
        return rp.r_api_versions(req["correlation_id"], 0, list(av))

    def metadata_view(self, topics=None):
        """(brokers, topics) as a Metadata v0 reply would list them right now"""
        brokers = [(b.node, b.host, b.port) for b in self.brokers.values() if b.up and b.listed]
        names = list(topics) if topics else sorted(self.topics)
        tl = []
        for t in names:
            terr = self.topic_errors.get(t, 0)
            if t not in self.topics:
                tl.append((terr or E_UNKNOWN_TOPIC_OR_PARTITION, t, []))
                continue
            parts = []
            for pid, p in sorted(self.topics[t].items()):
                leader = p.leader if (p.leader in self.brokers and self.brokers[p.leader].up and self.brokers[p.leader].listed) else -1
                parts.append((E_LEADER_NOT_AVAILABLE if leader == -1 else 0, pid, leader, [r for r in p.replicas], [r for r in p.isr]))
            # a broker lists a topic's partitions in no particular order
            order = getattr(self, "md_order", "asc")
            if order == "desc":
                parts.reverse()
            elif order == "rot" and len(parts) > 1:
                parts = parts[1:] + parts[:1]
            tl.append((terr, t, parts))
        return brokers, tl

    def h_metadata(self, node, conn, req, rec, info):
        brokers, tl = self.metadata_view(req["topics"])
        info["metadata"] = (brokers, tl, not req["topics"])
        self.metadata_replies.append(info)
        return rp.r_metadata(req["correlation_id"], brokers, tl)

    def h_find_coordinator(self, node, conn, req, rec, info):
        code = self._take_override(node, "find_coordinator")
        info["group"] = req["group"]
        c = self.coordinator_of(req["group"])
        if code is not None:
            info["coordinator"] = (code, -1)
            return rp.r_find_coordinator(req["correlation_id"], code, -1, "", -1)
        if c == -1 or not self.brokers[c].up:
            info["coordinator"] = (E_COORD_NOT_AVAILABLE, -1)
            return rp.r_find_coordinator(req["correlation_id"], E_COORD_NOT_AVAILABLE, -1, "", -1)
        b = self.brokers[c]
        info["coordinator"] = (0, c, b.host, b.port)
        return rp.r_find_coordinator(req["correlation_id"], 0, b.node, b.host, b.port)

    def _part(self, node, topic, pid):
        """-> (Partition or None, error code)"""
        if topic not in self.topics or pid not in self.topics[topic]:
            return None, E_UNKNOWN_TOPIC_OR_PARTITION
        p = self.topics[topic][pid]
        if p.leader != node:
            return p, E_NOT_LEADER
        return p, 0

    def h_produce(self, node, conn, req, rec, info):
        v = req["api_version"]
        out_topics = []
        info["partitions"] = {}
        for t in req["topics"]:
            plist = []
            for pp in t["partitions"]:
                topic, pid = t["topic"], pp["partition"]
                flat = []
                for e in pp["records"]:
                    if e["inner"] is not None:
                        flat.append((True, e["attributes"] & 7, [(x["key"], x["value"], x["timestamp"]) for x in e["inner"]]))
                    else:
                        flat.append((False, 0, [(e["key"], e["value"], e["timestamp"])]))
                code = self._take_override(node, "produce", topic, pid)
                p, perr = self._part(node, topic, pid)
                if code is None:
                    code = perr
                base = -1
                if code == 0:
                    base = p.log_end
                    for wrapper, codec, recs in flat:
                        p.append(recs, wrapper, codec)
                ack = {"req_seq": rec["seq"], "node": node, "conn": conn, "topic": topic, "pid": pid, "code": code, "base": base,
                       "messages": [(k, vv) for _, _, recs in flat for (k, vv, _) in recs], "time": self.world.now, "step": self.world.step_no,
                       "reply": info, "acks": req["acks"], "version": v, "was_leader": perr == 0}
                self.acks.append(ack)
                info["partitions"][(topic, pid)] = code
                plist.append((pid, code, base, -1))
            out_topics.append((t["topic"], plist))
        if req["acks"] == 0:
            info["no_reply"] = True
            return None
        return rp.r_produce(req["correlation_id"], out_topics, version=v)

    def _fetch_now(self, node, req):
        v = req["api_version"]
        out_topics = []
        total = 0
        errors = False
        detail = {}
        for t in req["topics"]:
            plist = []
            for pp in t["partitions"]:
                topic, pid = t["topic"], pp["partition"]
                code = self._take_override(node, "fetch", topic, pid) if not req.get("_parked") else None
                p, perr = self._part(node, topic, pid)
                if code is None:
                    code = perr
                data = b""
                hw = -1
                first_len = 0
                if code == 0:
                    hw = p.log_end
                    if pp["offset"] < p.log_start or pp["offset"] > p.log_end:
                        code = E_OFFSET_OUT_OF_RANGE
                    else:
                        full = p.serialise(pp["offset"], 1 if v >= 2 else 0)
                        if len(full) >= 12:
                            first_len = 12 + struct.unpack(">i", full[8:12])[0]
                        data = full[: max(pp["max_bytes"], 0)]
                if code != 0:
                    errors = True
                total += len(data)
                detail[(topic, pid)] = (code, pp["offset"], pp["max_bytes"], len(data), first_len)
                plist.append((pid, code, hw, data))
            out_topics.append((t["topic"], plist))
        return rp.r_fetch(req["correlation_id"], out_topics, version=v), total, errors, detail

    def h_fetch(self, node, conn, req, rec, info):
        out, total, errors, detail = self._fetch_now(node, req)
        info["fetch"] = detail
        if errors or (total > 0 and total >= req["min_bytes"]) or (total > 0 and req["max_wait"] <= 0):
            return out
        # long poll: answer at the deadline with whatever is there then
        req["_parked"] = True
        park = {"node": node, "conn": conn, "req": req, "info": info}
        self.parked.append(park)

        def fire():
            if park not in self.parked:
                return
            self.parked.remove(park)
            if conn.dropped:
                return
            out2, _, _, detail2 = self._fetch_now(node, req)
            info["fetch"] = detail2
            if self._take_hold(node, "fetch"):
                info["held"] = True
                self.held.append((conn, out2, info))
            else:
                self._send(conn, out2, info)

        self.world.call_later(max(req["max_wait"], 0) / 1000.0, fire, tag="fetch-long-poll")
        return None

    def h_list_offsets(self, node, conn, req, rec, info):
        out_topics = []
        for t in req["topics"]:
            plist = []
            for pp in t["partitions"]:
                code = self._take_override(node, "list_offsets", t["topic"], pp["partition"])
                p, perr = self._part(node, t["topic"], pp["partition"])
                if code is None:
                    code = perr
                offs = []
                if code == 0:
                    if pp["time"] == -1:
                        offs = [p.log_end]
                    elif pp["time"] == -2:
                        offs = [p.log_start]
                    else:
                        offs = [p.log_start]
                    offs = offs[: max(pp["max_offsets"], 0)]
                info["offsets_answer"] = list(offs)
                info["offsets_code"] = code
                plist.append((pp["partition"], code, offs))
            out_topics.append((t["topic"], plist))
        return rp.r_list_offsets(req["correlation_id"], out_topics)

    def _group_commit_check(self, group, generation, member):
        g = self.groups.get(group)
        if g is None:
            if generation < 0:
                return 0
            return E_ILLEGAL_GENERATION
        return g.commit_check(generation, member)

    def h_offset_commit(self, node, conn, req, rec, info):
        group = req["group"]
        out_topics = []
        info["commits"] = {}
        for t in req["topics"]:
            plist = []
            for pp in t["partitions"]:
                code = self._take_override(node, "offset_commit", t["topic"], pp["partition"])
                if code is None:
                    if self.coordinator_of(group) != node:
                        code = E_NOT_COORDINATOR
                    else:
                        code = self._group_commit_check(group, req["generation"], req["member_id"])
                if code == 0:
                    self.offsets[(group, t["topic"], pp["partition"])] = (pp["offset"], pp["metadata"])
                entry = {"req_seq": rec["seq"], "group": group, "topic": t["topic"], "pid": pp["partition"], "offset": pp["offset"], "code": code,
                         "generation": req["generation"], "member": req["member_id"], "reply": info, "step": self.world.step_no, "time": self.world.now, "conn": conn}
                self.commit_log.append(entry)
                info["commits"][(t["topic"], pp["partition"])] = (code, pp["offset"])
                plist.append((pp["partition"], code))
            out_topics.append((t["topic"], plist))
        return rp.r_offset_commit(req["correlation_id"], out_topics)

    def h_offset_fetch(self, node, conn, req, rec, info):
        group = req["group"]
        out_topics = []
        info["offsets"] = {}
        for t in req["topics"]:
            plist = []
            for pp in t["partitions"]:
                code = self._take_override(node, "offset_fetch", t["topic"], pp["partition"])
                if code is None and self.coordinator_of(group) != node:
                    code = E_NOT_COORDINATOR
                if code:
                    plist.append((pp["partition"], -1, b"", code))
                    info["offsets"][(t["topic"], pp["partition"])] = (code, -1)
                    continue
                off, meta = self.offsets.get((group, t["topic"], pp["partition"]), (-1, b""))
                info["offsets"][(t["topic"], pp["partition"])] = (0, off)
                plist.append((pp["partition"], off, meta if meta is not None else b"", 0))
            out_topics.append((t["topic"], plist))
        return rp.r_offset_fetch(req["correlation_id"], out_topics)

    # ------------------------------------------------------------------ group membership (model: vlib/simgroup.py)
    def group(self, name):
        from . import simgroup

        g = self.groups.get(name)
        if g is None:
            g = self.groups[name] = simgroup.Group(self, name)
        return g

    def _responder(self, node, conn, api, info):
        """for replies produced later than the request (held joins and syncs): same hold / ledger path as handle()"""

        def respond(payload):
            info["answered_time"] = self.world.now
            if self._take_hold(node, api):
                info["held"] = True
                self.held.append((conn, payload, info))
            else:
                self._send(conn, payload, info)

        return respond

    def _group_precheck(self, node, api, group):
        code = self._take_override(node, api)
        if code is None and self.coordinator_of(group) != node:
            code = E_NOT_COORDINATOR
        return code

    def h_join_group(self, node, conn, req, rec, info):
        corr = req["correlation_id"]
        code = self._group_precheck(node, "join_group", req["group"])
        if code is not None:
            info["join"] = {"code": code, "injected": True}
            return rp.r_join_group(corr, code, -1, "", "", req["member_id"], [])
        respond = self._responder(node, conn, "join_group", info)

        def cb(code, generation, protocol, leader, member_id, members):
            info["join"] = {"code": code, "generation": generation, "leader": leader, "member_id": member_id, "members": [m[0] for m in members]}
            respond(rp.r_join_group(corr, code, generation, protocol or "", leader or "", member_id, members))

        self.group(req["group"]).join(req["member_id"], req["session_timeout"], req["protocol_type"], [(p["name"], p["metadata"]) for p in req["protocols"]], cb)
        return None

    def h_sync_group(self, node, conn, req, rec, info):
        corr = req["correlation_id"]
        code = self._group_precheck(node, "sync_group", req["group"])
        if code is not None:
            info["sync"] = {"code": code, "injected": True}
            return rp.r_sync_group(corr, code, b"")
        respond = self._responder(node, conn, "sync_group", info)

        def cb(code, assignment):
            info["sync"] = {"code": code, "assignment": assignment, "generation": req["generation"], "member_id": req["member_id"]}
            respond(rp.r_sync_group(corr, code, assignment))

        self.group(req["group"]).sync(req["member_id"], req["generation"], [(a["member_id"], a["assignment"]) for a in req["assignments"]], cb)
        return None

    def h_heartbeat(self, node, conn, req, rec, info):
        code = self._group_precheck(node, "heartbeat", req["group"])
        injected = code is not None
        if code is None:
            code = self.group(req["group"]).heartbeat(req["member_id"], req["generation"])
        info["heartbeat"] = {"code": code, "injected": injected, "generation": req["generation"], "member_id": req["member_id"]}
        return rp.r_heartbeat(req["correlation_id"], code)

    def h_leave_group(self, node, conn, req, rec, info):
        code = self._group_precheck(node, "leave_group", req["group"])
        injected = code is not None
        if code is None:
            code = self.group(req["group"]).leave(req["member_id"])
        info["leave"] = {"code": code, "injected": injected, "member_id": req["member_id"]}
        return rp.r_leave_group(req["correlation_id"], code)


def frame_of(payload):
    return struct.pack(">I", len(payload)) + payload
