"""helper: python sensitivity/mk.py <prop> <name> <file> ; reads OLD\n=====\nNEW from stdin; writes sensitivity/<prop>/<name>.diff"""
import difflib, os, sys
prop, name, path = sys.argv[1:4]
old, new = sys.stdin.read().split("\n=====\n")
new = new.rstrip("\n") + "\n" if new.strip() else ""
old = old.rstrip("\n") + "\n"
src = open(os.path.join("/repo", path)).read()
assert src.count(old) == 1, "old text occurs %d times" % src.count(old)
dst = src.replace(old, new)
d = "".join(difflib.unified_diff(src.splitlines(True), dst.splitlines(True), "a/" + path, "b/" + path, n=3))
os.makedirs(os.path.join(os.path.dirname(os.path.abspath(__file__)), prop), exist_ok=True)
open(os.path.join(os.path.dirname(os.path.abspath(__file__)), prop, name + ".diff"), "w").write(d)
print("wrote", prop, name, len(d.splitlines()), "lines")
