#!/bin/bash
# sensitivity/run.sh <patch.diff> <Cxx> [tier]   (not a registered check)
# Applies one mutant patch to a scratch copy of /repo (outside /repo and /verif), runs the
# check against it via VERIF_REPO, prints CAUGHT/MISSED, deletes the copy.
PATCH="$(readlink -f "$1")"; PROP="$2"; TIER="${3:-quick}"
HERE="$(cd "$(dirname "${BASH_SOURCE[0]}")/.." && pwd)"
SCR="$(mktemp -d /tmp/sens.XXXXXX)"
trap 'rm -rf "$SCR"' EXIT
rsync -a --exclude .git --exclude __pycache__ /repo/ "$SCR/repo/"
( cd "$SCR/repo" && patch -p1 --quiet < "$PATCH" ) || { echo "PATCH-FAILED $PATCH"; exit 3; }
mkdir -p "$SCR/out"
VERIF_REPO="$SCR/repo" VERIF_OUT="$SCR/out" "$HERE/check" "$PROP" "$TIER" > "$SCR/log" 2>&1
rc=$?
if [ $rc -eq 1 ]; then
    echo "CAUGHT $PROP $(basename "$PATCH") :: $(grep -m1 -A1 '^VIOLATION' "$SCR/log" | tail -1 | cut -c1-160)"
elif [ $rc -eq 0 ]; then
    echo "MISSED $PROP $(basename "$PATCH") :: $(tail -1 "$SCR/log")"
else
    echo "ERROR($rc) $PROP $(basename "$PATCH")"; tail -15 "$SCR/log"
fi
exit $rc
