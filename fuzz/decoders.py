#!/venv/bin/python
"""atheris (libFuzzer) target for C12(c): raw bytes into every afkak response decoder.

byte 0 selects the decoder, the rest is the input.  The semantic oracle is
inside the target: the decoder must terminate with a value or an Exception
within the deterministic work budget of vlib/decwork.py; exceeding it is an
uncaught error -> libFuzzer crash artefact -> converted to a replay file by
checks/c12.py.

usage: decoders.py <stats.json> [libFuzzer args...] <corpus dir>
"""
import json
import os
import sys

HOME = os.path.dirname(os.path.dirname(os.path.abspath(__file__)))
for p in (os.environ.get("VERIF_REPO", "/repo"), HOME, os.path.join(HOME, ".deps")):
    if p not in sys.path:
        sys.path.insert(0, p)

import atheris  # noqa: E402

with atheris.instrument_imports(include=["afkak"]):
    import afkak.kafkacodec  # noqa: E402,F401
    import afkak._util  # noqa: E402,F401
    import afkak.codec  # noqa: E402,F401

from vlib import decwork  # noqa: E402

STATS = {"runs": 0, "nontrivial": 0, "by_status": {}, "samples": []}
_seen = set()
_stats_path = None


def _dump():
    if _stats_path:
        with open(_stats_path + ".tmp", "w") as f:
            json.dump(STATS, f)
        os.replace(_stats_path + ".tmp", _stats_path)


class C12Violation(RuntimeError):
    pass


def TestOneInput(data):
    if len(data) < 1:
        return
    r = decwork.run(data[0], bytes(data[1:]))
    STATS["runs"] += 1
    STATS["by_status"][r["status"]] = STATS["by_status"].get(r["status"], 0) + 1
    if r["work"] >= 10:
        h = hash(bytes(data))
        if h not in _seen:
            _seen.add(h)
            STATS["nontrivial"] += 1
            if len(STATS["samples"]) < 3 and r["work"] >= 40:
                STATS["samples"].append({"decoder": r["decoder"], "input_hex": bytes(data[1:]).hex()[:200], "status": r["status"], "exc": r["exc"], "work_lines": r["work"]})
    if STATS["runs"] % 2000 == 0:
        _dump()
    if r["status"] in ("work", "memory"):
        _dump()
        raise C12Violation("decoder %s exceeded its %s budget on %d input bytes (work %d > limit %d)" % (r["decoder"], r["status"], len(data) - 1, r["work"], r["limit"]))


if __name__ == "__main__":
    _stats_path = sys.argv[1]
    atheris.Setup([sys.argv[0]] + sys.argv[2:], TestOneInput)
    atheris.Fuzz()
