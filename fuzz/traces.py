#!/venv/bin/python
"""atheris (libFuzzer) target for the engine checks: coverage-guided search over *traces*.

The bytes libFuzzer mutates are handed to Hypothesis (`test.hypothesis.fuzz_one_input`), which reads them as the choice sequence of
the same `st.data()` driver the registered checks use (config, step count, every step drawn by the engine in its current state), so
every input is a structurally valid trace and coverage feedback comes from afkak's own branches (atheris.instrument_imports).
The semantic oracle is inside the target: the engine's clauses for the property; an unlisted violation is written as a JSON replay
file (config + trace + signature) and re-raised, which libFuzzer reports as a crash and stops.

usage: traces.py <check module, e.g. c06> <out dir> [libFuzzer args...] <corpus dir>
"""
import json
import os
import sys

HOME = os.path.dirname(os.path.dirname(os.path.abspath(__file__)))
for p in (os.environ.get("VERIF_REPO", "/repo"), HOME, os.path.join(HOME, ".deps")):
    if p not in sys.path:
        sys.path.insert(0, p)

import atheris  # noqa: E402

with atheris.instrument_imports(include=["afkak"]):
    import afkak  # noqa: E402,F401
    import afkak.client  # noqa: E402,F401
    import afkak.brokerclient  # noqa: E402,F401
    import afkak.producer  # noqa: E402,F401
    import afkak.consumer  # noqa: E402,F401
    import afkak._group  # noqa: E402,F401
    import afkak.kafkacodec  # noqa: E402,F401

import importlib  # noqa: E402

from hypothesis import HealthCheck, given, settings  # noqa: E402
from hypothesis import strategies as st  # noqa: E402

from vlib import jsonx  # noqa: E402
from vlib.engines.base import CaseExcluded  # noqa: E402
from vlib.runner import Ctx, OracleViolation, load_known  # noqa: E402

STATS = {"runs": 0, "valid": 0, "nontrivial": 0, "excluded": 0, "labels": {}, "samples": []}
_seen = set()


def main():
    modname, outdir = sys.argv[1], sys.argv[2]
    argv = [sys.argv[0]] + sys.argv[3:]
    mod = importlib.import_module("checks.%s" % modname)
    prop = mod.PROP
    eng_cls = getattr(mod, "FUZZ_ENGINE", None) or getattr(mod, "Eng", None) or getattr(mod, "ENGINE")
    kw = getattr(mod, "FUZZ_KW", None) or {"props": {prop}}
    max_steps = int(os.environ.get("VERIF_FUZZ_MAX_STEPS", "60"))
    ctx = Ctx(prop, "thorough", 0, 0, 1, load_known(prop))

    @settings(database=None, deadline=None, suppress_health_check=list(HealthCheck))
    @given(st.data())
    def test(data):
        config = data.draw(eng_cls.config_strategy())
        eng = eng_cls(config, ctx, **kw)
        ctx.current = {"engine": eng_cls.NAME, "config": config, "trace": eng.trace}
        n = data.draw(st.integers(4, max_steps))
        try:
            for _ in range(n):
                step = eng.draw_step(data.draw)
                if step is None:
                    break
                eng.apply(step)
            eng.end()
        except CaseExcluded:
            STATS["excluded"] += 1
            return
        STATS["valid"] += 1
        for lab in eng.labels:
            STATS["labels"][lab] = STATS["labels"].get(lab, 0) + 1
        if eng.nontrivial():
            h = jsonx.chash([config, eng.trace])
            if h not in _seen:
                _seen.add(h)
                STATS["nontrivial"] += 1
                if len(STATS["samples"]) < 2:
                    STATS["samples"].append(jsonx.abbreviate({"config": config, "trace": eng.trace[:40], "observed": eng.summary()}))

    fuzz_one = test.hypothesis.fuzz_one_input
    total_runs = 1 << 62
    for a in argv:
        if a.startswith("-runs="):
            total_runs = int(a.split("=", 1)[1])

    def dump():
        with open(os.path.join(outdir, "stats.json.tmp"), "w") as f:
            json.dump(STATS, f)
        os.replace(os.path.join(outdir, "stats.json.tmp"), os.path.join(outdir, "stats.json"))

    def TestOneInput(data):
        STATS["runs"] += 1
        try:
            fuzz_one(data)
        except OracleViolation as e:
            v = e.v
            with open(os.path.join(outdir, "violation.json"), "w") as f:
                json.dump({"property": prop, "clause": v.clause, "signature": v.sig, "detail": v.detail, "case": jsonx.enc(v.case), "found_by": "atheris"}, f)
            dump()
            raise
        if STATS["runs"] % 100 == 0 or STATS["runs"] >= total_runs - 1:
            dump()  # (atexit handlers do not run under libFuzzer)

    import atexit

    atexit.register(dump)
    atheris.Setup(argv, TestOneInput)
    try:
        atheris.Fuzz()
    finally:
        dump()


if __name__ == "__main__":
    main()
