// Reference oracle for property C18: Kafka's org.apache.kafka.common.utils.Utils.murmur2,
// transcribed from the Apache Kafka Java client (Apache License 2.0), executed on the real JVM
// so that int overflow, sign extension of bytes and >>> are Java's own.
//
// Protocol on stdin/stdout: one hex-encoded key per line ("-" = empty key) -> one decimal int
// (the signed 32-bit hash) per line.  "Q" terminates.
import java.io.BufferedReader;
import java.io.BufferedWriter;
import java.io.InputStreamReader;
import java.io.OutputStreamWriter;

public class Murmur2Ref {
    public static int murmur2(final byte[] data) {
        int length = data.length;
        int seed = 0x9747b28c;
        // 'm' and 'r' are mixing constants generated offline.
        // They're not really 'magic', they just happen to work well.
        final int m = 0x5bd1e995;
        final int r = 24;

        // Initialize the hash to a random value
        int h = seed ^ length;
        int length4 = length / 4;

        for (int i = 0; i < length4; i++) {
            final int i4 = i * 4;
            int k = (data[i4 + 0] & 0xff) + ((data[i4 + 1] & 0xff) << 8) + ((data[i4 + 2] & 0xff) << 16) + ((data[i4 + 3] & 0xff) << 24);
            k *= m;
            k ^= k >>> r;
            k *= m;
            h *= m;
            h ^= k;
        }

        // Handle the last few bytes of the input array
        switch (length % 4) {
            case 3:
                h ^= (data[(length & ~3) + 2] & 0xff) << 16;
            case 2:
                h ^= (data[(length & ~3) + 1] & 0xff) << 8;
            case 1:
                h ^= data[length & ~3] & 0xff;
                h *= m;
        }

        h ^= h >>> 13;
        h *= m;
        h ^= h >>> 15;

        return h;
    }

    // Kafka's DefaultPartitioner: Utils.toPositive(Utils.murmur2(keyBytes)) % numPartitions
    public static int toPositive(int number) {
        return number & 0x7fffffff;
    }

    public static void main(String[] args) throws Exception {
        BufferedReader in = new BufferedReader(new InputStreamReader(System.in, "US-ASCII"), 1 << 16);
        BufferedWriter out = new BufferedWriter(new OutputStreamWriter(System.out, "US-ASCII"), 1 << 16);
        String line;
        while ((line = in.readLine()) != null) {
            if (line.equals("Q")) break;
            if (line.equals("F")) { out.flush(); continue; }
            byte[] data;
            if (line.equals("-")) {
                data = new byte[0];
            } else {
                int n = line.length() / 2;
                data = new byte[n];
                for (int i = 0; i < n; i++) {
                    data[i] = (byte) Integer.parseInt(line.substring(2 * i, 2 * i + 2), 16);
                }
            }
            out.write(Integer.toString(murmur2(data)));
            out.write('\n');
        }
        out.flush();
    }
}
